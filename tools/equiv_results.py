#!/usr/bin/env python3
"""tools/equiv_results.py <sweep-log> [...]: writes selftest/equivalent/RESULTS.md from the output of tools/equiv_sweep.sh"""
import re, sys, os, subprocess
ROOT = os.path.dirname(os.path.dirname(os.path.abspath(__file__)))
rows = {}
extra = {}
last = None
for f in sys.argv[1:]:
    for l in open(f):
        m = re.match(r"EQUIV (\S+) (C\d+) exit=(\d+) violations=(\d+) undecided=(\d+) tests=\[(.*?)\]", l)
        if m:
            name, c, rc, v, u, t = m.groups()
            rows.setdefault(name, {})[c] = (int(rc), int(v), int(u), t)
            last = (name, c)
        elif l.startswith("EQUIV") and "does not apply" in l:
            rows.setdefault(l.split()[1].rstrip(":"), {})["-"] = (9, 0, 0, "patch does not apply")
        elif last and (l.startswith("UNDECIDED") or l.startswith("VIOLATION") or l.startswith("ENGINE-ERROR")):
            extra.setdefault(last, []).append(l.strip()[:220])
vh = subprocess.run("git -C %s log --oneline -1" % ROOT, shell=True, capture_output=True, text=True).stdout.strip()
rh = subprocess.run("git -C /repo log --oneline -1", shell=True, capture_output=True, text=True).stdout.strip()
with open(os.path.join(ROOT, "selftest", "equivalent", "RESULTS.md"), "w") as fh:
    fh.write("# False-alarm sweep over behaviour-preserving changes\n\nRun with `tools/equiv_sweep.sh /repo` (/verif at %s, /repo at %s): each patch applied to a scratch copy of the committed HEAD of /repo, unit tests, "
             "then all 20 checks (quick tier) with `G3DVC_REPO` pointing at the copy. Requirement: exit 0 and no VIOLATION line.\n\n" % (vh, rh))
    fh.write("| patch | unit tests | checks exit 0 | VIOLATION lines | checks with undecided clauses |\n|---|---|---|---|---|\n")
    bad = 0
    for name in sorted(rows):
        r = rows[name]
        ok = sum(1 for c, (rc, v, u, t) in r.items() if rc == 0)
        viol = sum(v for (rc, v, u, t) in r.values())
        und = ", ".join("%s (%d)" % (c, u) for c, (rc, v, u, t) in sorted(r.items()) if u)
        tests = sorted(set(t for (rc, v, u, t) in r.values()))[0].split(" in ")[0]
        bad += (ok != len(r)) or viol
        fh.write("| %s | %s | %d / %d | %d | %s |\n" % (name, tests, ok, len(r), viol, und or "-"))
    fh.write("\n%s\n" % ("No check raised an alarm on any behaviour-preserving change." if not bad else "ALARMS RAISED - see above."))
    if extra:
        fh.write("\nUndecided clauses (loss of proof coverage on the changed code, reported and exit 0):\n\n")
        for (name, c), ls in sorted(extra.items()):
            for l in ls[:3]:
                fh.write("* %s / %s: `%s`\n" % (name, c, l))
print("patches:", len(rows), "alarms:", bad)
