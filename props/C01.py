"""C01 - intersection of two flat primitives is exactly their common point set."""
from fractions import Fraction

from g3dvc.runner import Group
from g3dvc.sym import Sym, SymBool, F, And, Or, Not, Implies, Iff
from g3dvc import spec as SP
from g3dvc import setworld as SW
from contracts import common as C
from contracts import inter as CI

PROPERTY = "C01"
LEVEL = "proof"
ASSUMES = ["A1", "A2", "A5", "A6"]
MOD = CI.MOD


def set_harness(name, restrict=None, flags=None):
    """SET-world proof of one composition handler against the contracts of its callees"""
    ta, tb = CI.PARAMS[name]

    def h(vc):
        import importlib
        I = importlib.import_module(MOD)
        w = SW.SetWorld(vc)
        for k, v in (flags or {}).items():
            setattr(w, k, v)
        a = w.obj(ta, "a")
        b = w.obj(tb, "b")
        before = (w.snapshot_opaque(a), w.snapshot_opaque(b))
        out = vc.call(getattr(I, name), a, b)
        w.ensure_intersection(out, a, b, CI.RESULT_KINDS[name], label=name)
        vc.ensure("frame: operands unchanged (no attribute rebound)", (w.snapshot_opaque(a), w.snapshot_opaque(b)) == before)

    return h


def set_group(name, restrict=None, flags=None, suffix="", expect=()):
    stubs = CI.handler_stubs(exclude=[name], restrict=restrict) + CI.membership_stubs()
    return Group("%s[SET%s]" % (name, suffix), set_harness(name, restrict, flags), ["%s:%s" % (MOD, name)], stubs=stubs, world="SET", timeout_s=120,
                 patches=False, expect_hits=list(expect))



FLAT_SET = ["inter_point_point", "inter_point_line", "inter_point_plane", "inter_point_segment", "inter_point_halfline",
            "inter_line_segment", "inter_line_halfline", "inter_plane_segment", "inter_plane_halfline"]
FLAT_CROSSING = ["inter_segment_segment", "inter_segment_halfline", "inter_halfline_halfline"]
FLAT_KINDS = ["Point", "Line", "HalfLine", "Segment", "Plane"]
MANIFEST = dict(
    text=("Deductive proof that intersection(a, b) of two flat primitives denotes exactly the common point set, for all real coordinates. "
          "The top-level postcondition is extensional (forall x: x in result <=> x in a and x in b, with None = empty), so 'whole overlap, not one end point' and 'touching yields the Point' are consequences. "
          "It is established modularly: the dispatcher is proved to reach the right handler in the right argument order for all 25 ordered pairs and the method form; the leaves inter_line_plane, inter_line_line "
          "(against solve's contract) and inter_plane_plane (proof script over BAC-CAB/Lagrange identities) are proved over symbolic coordinates; the collinear branches of segment/half-line handlers on inputs "
          "constructed in that configuration; and the composition handlers (point-vs-X, carrier-then-filter, crossing branches) against their callees' contracts with opaque operands."),
    note=("A1 real arithmetic; A5: every tolerance test on a path is replaced by the exact contract of that predicate (membership, ==, parallel, orthogonal, null), whose tolerance contracts are proved in C05/C08/C19; "
          "admissions are logged. The exact contract of solve() is the one proved in C16. Callee contracts are stubs: a caller is checked against the contract, not the body. "
          "A labelled bounded stand-in (catalogue of designed relative positions, exact rational oracle) cross-checks the proved contracts on CPython floats and is not counted as proved."),
    technique='contract-based deductive verification of the real intersection handlers and dispatcher (symbolic execution on z3 reals; proof scripts; z3 / cvc5 back ends) + labelled bounded cross-check of all 25 flat pairs against an exact rational oracle (operand variants, repeated questions)',
    design_ref="DESIGN.md section 9 (C01), sections 3.1-3.5",
)
EXPLANATION = ("Handlers are proved one by one against contracts; SET-world obligations are ground EUF over membership atoms and hold for all operands; COORD-world obligations are polynomial "
               "real arithmetic over all coordinates. No bound is involved: all flat types have a single shape.")


# ---------------------------------------------------------------------------
# COORD leaves
# ---------------------------------------------------------------------------

def _I():
    import importlib
    return importlib.import_module(MOD)


def h_line_plane(vc):
    g = C.G()
    l = C.line(vc, "l")
    p = C.plane(vc, "p")
    sv, dv, pp, n = SP.vec(l.sv), SP.vec(l.dv), SP.vec(p.p), SP.vec(p.n)
    t = vc.real("t")
    x = SP.add(sv, SP.scale(t, dv))  # an arbitrary point of the line (parametric form, lemma 'parametric')
    dn = SP.dot(dv, n)
    before = (vc.snapshot(l), vc.snapshot(p))
    out = vc.call(_I().inter_line_plane, l, p)
    vc.ensure("does not raise", out.returned)
    if not out.returned:
        vc.note(repr(out.value))
        return
    r = out.value
    if r is None:
        vc.ensure("None => no point of l lies in p", Not(SP.on_plane(x, pp, n)))
        vc.ensure("None => l parallel to p, support point off p (case fact)", And(SP.eqz(dn), Not(SP.on_plane(sv, pp, n))))
    elif isinstance(r, g.Line):
        vc.ensure("Line => the operand l itself", r is l)
        vc.ensure("Line => every point of l lies in p", SP.on_plane(x, pp, n))
        vc.ensure("Line => l parallel to p, support point on p (case fact)", And(SP.eqz(dn), SP.on_plane(sv, pp, n)))
    elif isinstance(r, g.Point):
        q = SP.vec(r)
        vc.ensure("Point => on l", SP.on_line(q, sv, dv))
        vc.ensure("Point => on p", SP.on_plane(q, pp, n))
        vc.ensure("Point => the only common point", Implies(SP.on_plane(x, pp, n), SP.veq(x, q)))
        vc.ensure("Point => l not parallel to p (case fact)", Not(SP.eqz(dn)))
        if vc.symbolic:
            vc.ensure("probe: the point is the support point", SP.veq(q, sv), kind="must-fail")
    else:
        vc.fail("result type %s not in None/Point/Line" % type(r).__name__)
    vc.ensure("frame: operands unchanged", (vc.snapshot(l), vc.snapshot(p)) == before)


def h_line_line(vc):
    g = C.G()
    l1 = C.line(vc, "l1")
    l2 = C.line(vc, "l2")
    s1, d1, s2, d2 = SP.vec(l1.sv), SP.vec(l1.dv), SP.vec(l2.sv), SP.vec(l2.dv)
    t1, t2 = vc.real("t1"), vc.real("t2")
    x1 = SP.add(s1, SP.scale(t1, d1))
    x2 = SP.add(s2, SP.scale(t2, d2))
    common = SP.veq(x1, x2)  # "x1 is a common point", in parametric form
    before = (vc.snapshot(l1), vc.snapshot(l2))
    out = vc.call(_I().inter_line_line, l1, l2)
    vc.ensure("does not raise", out.returned)
    if not out.returned:
        vc.note(repr(out.value))
        return
    r = out.value
    if r is None:
        for st in getattr(vc, "solve_stubs", []):
            vc.assume(st.no_solution_at([t1, t2]), "instance of the universal clause of solve's contract at the witness")
        vc.ensure("None => the lines have no common point", Not(common))
    elif isinstance(r, g.Line):
        vc.ensure("Line => the operand l1 itself", r is l1)
        vc.ensure("Line => the two lines are the same set (case fact)", SP.same_line(s1, d1, s2, d2))
    elif isinstance(r, g.Point):
        q = SP.vec(r)
        vc.ensure("Point => on l1", SP.on_line(q, s1, d1))
        vc.ensure("Point => on l2", SP.on_line(q, s2, d2))
        vc.ensure("Point => the only common point", Implies(common, SP.veq(x1, q)))
        if vc.symbolic:
            vc.ensure("probe: the point is l1's support point", SP.veq(q, s1), kind="must-fail")
    else:
        vc.fail("result type %s not in None/Point/Line" % type(r).__name__)
    vc.ensure("frame: operands unchanged", (vc.snapshot(l1), vc.snapshot(l2)) == before)


def h_plane_plane(vc):
    g = C.G()
    a = C.plane(vc, "a")
    b = C.plane(vc, "b")
    ap, an, bp, bn = SP.vec(a.p), SP.vec(a.n), SP.vec(b.p), SP.vec(b.n)
    x = C.witness(vc)
    both = And(SP.on_plane(x, ap, an), SP.on_plane(x, bp, bn))
    c = SP.cross(an, bn)
    cc = SP.norm2(c)

    def before_second_normalize(v):
        # script: (k1 (an x bn)) x an is not the zero vector
        logs = vc.log.get("normalized", [])
        if len(logs) != 1:
            return
        k1 = logs[0][0]
        u = SP.vec(v)
        uu = SP.norm2(u)
        vc.hint("|u|^2 = k1^2 (|c|^2 |an|^2 - (c.an)^2)", uu == k1 * k1 * (cc * SP.norm2(an) - SP.dot(c, an) * SP.dot(c, an)))
        vc.hint("c.an = 0", SP.dot(c, an) == 0)
        vc.have("|an x bn|^2 > 0", cc > 0, using=[Not(SP.vzero(c))], abstract=list(c))
        vc.have("|u|^2 > 0", uu > 0, using=[uu == k1 * k1 * (cc * SP.norm2(an) - SP.dot(c, an) * SP.dot(c, an)), SP.dot(c, an) == 0, cc > 0, k1 > 0, SP.norm2(an) == 1],
                abstract=[uu, cc, SP.norm2(an), SP.dot(c, an)])
        vc.have("u != 0", Not(SP.vzero(u)), using=[uu > 0], abstract=list(u))

    def before_ilp(l, p):
        # script: the auxiliary line is not parallel to plane b
        logs = vc.log.get("normalized", [])
        if len(logs) < 2:
            return
        k1, k2 = logs[0][0], logs[1][0]
        wbn = SP.dot(SP.vec(l.dv), SP.vec(p.n))
        vc.hint("w.bn = k1 k2 |an x bn|^2", wbn == k1 * k2 * cc)
        vc.have("|an x bn|^2 > 0", cc > 0, using=[Not(SP.vzero(c))], abstract=list(c))
        vc.have("w.bn != 0", Not(wbn == 0), using=[wbn == k1 * k2 * cc, cc > 0, k1 > 0, k2 > 0], abstract=[wbn, cc])

    if vc.symbolic:
        vc.on_call["inter_line_plane"] = before_ilp
        vc.on_call["Vector.normalized"] = before_second_normalize
    before = (vc.snapshot(a), vc.snapshot(b))
    out = vc.call(_I().inter_plane_plane, a, b)
    vc.ensure("does not raise", out.returned)
    if not out.returned:
        vc.note(repr(out.value))
        return
    r = out.value
    if r is None:
        vc.ensure("None => the planes have no common point", Not(both))
    elif isinstance(r, g.Plane):
        vc.ensure("Plane => the operand a itself", r is a)
        vc.ensure("Plane => the two planes are the same set (case fact)", SP.same_plane(ap, an, bp, bn))
    elif isinstance(r, g.Line):
        sv, dv = SP.vec(r.sv), SP.vec(r.dv)
        y = SP.sub(x, sv)
        yan, ybn = SP.dot(y, an), SP.dot(y, bn)
        cr = SP.cross(y, dv)
        abstract = None
        if vc.symbolic and len(vc.log.get("normalized", [])) >= 2 and vc.log.get("inter_line_plane"):
            (k1, _, v1), (k2, _, w) = vc.log["normalized"][:2]
            mu = vc.log["inter_line_plane"][0][0]
            wan = SP.dot(w, an)
            sva = SP.dot(SP.sub(sv, ap), an)
            vc.hint("w.an = 0", wan == 0)
            vc.hint("(sv-ap).an = mu (w.an)", sva == mu * wan)
            vc.have("support point on a", sva == 0, using=[wan == 0, sva == mu * wan], abstract=[sva, wan])
            vc.hint("y.an", yan == SP.dot(SP.sub(x, ap), an) - SP.dot(SP.sub(sv, ap), an))
            vc.hint("y.bn", ybn == SP.dot(SP.sub(x, bp), bn) - SP.dot(SP.sub(sv, bp), bn))
            for i in range(3):
                vc.hint("BAC-CAB %d" % i, cr[i] == k1 * (an[i] * ybn - bn[i] * yan))
            abstract = [cr[0], cr[1], cr[2], yan, ybn, SP.dot(SP.sub(x, ap), an), SP.dot(SP.sub(sv, ap), an), SP.dot(SP.sub(x, bp), bn), SP.dot(SP.sub(sv, bp), bn)]
        vc.ensure("Line => its support point lies in a", SP.on_plane(sv, ap, an))
        vc.ensure("Line => its support point lies in b", SP.on_plane(sv, bp, bn))
        vc.ensure("Line => its direction is parallel to a", SP.eqz(SP.dot(dv, an)))
        vc.ensure("Line => its direction is parallel to b", SP.eqz(SP.dot(dv, bn)))
        vc.ensure("Line => its direction is not zero", SP.vnonzero(dv))
        vc.ensure("Line => every common point lies on it", Implies(both, SP.on_line(x, sv, dv)), abstract=abstract)
    else:
        vc.fail("result type %s not in None/Line/Plane" % type(r).__name__)
    vc.ensure("frame: operands unchanged", (vc.snapshot(a), vc.snapshot(b)) == before)


def h_lemma_parametric(vc):
    """(x - sv) x dv = 0 and dv != 0  =>  x = sv + t dv with t = (x-sv).dv / dv.dv ; and conversely"""
    sv, dv, x = C.witness(vc, "sv"), C.witness(vc, "dv"), C.witness(vc, "x")
    vc.assume(SP.vnonzero(dv), "dv != 0")
    y = SP.sub(x, sv)
    dd = SP.norm2(dv)
    yd = SP.dot(y, dv)
    cr = SP.cross(y, dv)
    if vc.symbolic:
        vc.have("dv.dv > 0", dd > 0, using=[SP.vnonzero(dv)], abstract=[])
        # (dv.dv) y = (y.dv) dv + dv x (y x dv)
        for i in range(3):
            vc.hint("BAC-CAB %d" % i, dd * y[i] == yd * dv[i] + SP.cross(dv, cr)[i])
    vc.ensure("cross form => parametric form (scaled by dv.dv)", Implies(SP.on_line(x, sv, dv), And(*[SP.eq(dd * y[i], yd * dv[i]) for i in range(3)])))
    t = vc.real("t")
    vc.ensure("parametric form => cross form", SP.on_line(SP.add(sv, SP.scale(t, dv)), sv, dv))
    # the representation invariants used as facts in the SET world
    a, b = C.witness(vc, "a"), C.witness(vc, "b")
    vc.ensure("Segment subset of its carrier", Implies(SP.on_segment(x, a, b), SP.on_line(x, a, SP.sub(b, a))))
    vc.ensure("Segment contains its end points", Implies(Not(SP.veq(a, b)), And(SP.on_segment(a, a, b), SP.on_segment(b, a, b))))
    vc.ensure("HalfLine subset of its carrier, contains its origin", And(Implies(SP.on_halfline(x, sv, dv), SP.on_line(x, sv, dv)), SP.on_halfline(sv, sv, dv)))


# collinear branches: both operands are constructed on one carrier line A0 + t d

def _mkseg(vc, A0, d, name):
    g = C.G()
    t1, t2 = vc.real(name + ".t1"), vc.real(name + ".t2")
    vc.assume(Not(SP.eq(t1, t2)), "invariant Segment: end points differ")
    s = g.Segment.__new__(g.Segment)
    a = SP.add(A0, SP.scale(t1, d))
    b = SP.add(A0, SP.scale(t2, d))
    s.start_point = g.Point(*a)
    s.end_point = g.Point(*b)
    l = g.Line.__new__(g.Line)
    l.sv = g.Vector(*a)
    l.dv = g.Vector(*SP.sub(b, a))
    s.line = l
    return s


def _mkhl(vc, A0, d, name):
    g = C.G()
    t1, k = vc.real(name + ".t1"), vc.real(name + ".k")
    vc.assume(Not(SP.eqz(k)), "invariant HalfLine: vector not zero")
    h = g.HalfLine.__new__(g.HalfLine)
    p = SP.add(A0, SP.scale(t1, d))
    v = SP.scale(k, d)
    h.point = g.Point(*p)
    h.vector = g.Vector(*v)
    l = g.Line.__new__(g.Line)
    l.sv = g.Vector(*p)
    l.dv = g.Vector(*v)
    h.line = l
    return h


def collinear_harness(name, ka, kb):
    def h(vc):
        g = C.G()
        A0 = C.witness(vc, "A0")
        d = C.witness(vc, "d")
        vc.assume(SP.vnonzero(d), "carrier direction not zero")
        a = (_mkseg if ka == "S" else _mkhl)(vc, A0, d, "a")
        b = (_mkseg if kb == "S" else _mkhl)(vc, A0, d, "b")
        if ka == "H" and kb == "H":
            vv = SP.dot(SP.vec(a.vector), SP.vec(b.vector))
            if vc.symbolic:
                vc.admit(Or(vv == 0, vv >= C.ADM * C.EPS0, vv <= -C.ADM * C.EPS0), "HalfLine in HalfLine: v1.v2 = 0 or |v1.v2| >= 4 eps")
            else:
                vc.admit(vv == 0 or abs(vv) >= float(C.ADM * C.EPS0), "HalfLine in HalfLine: v1.v2 = 0 or |v1.v2| >= 4 eps")
        t = vc.real("t")
        x = SP.add(A0, SP.scale(t, d))
        before = (vc.snapshot(a), vc.snapshot(b))
        out = vc.call(getattr(_I(), name), a, b)
        vc.ensure("does not raise (no 'Bug detected')", out.returned)
        if not out.returned:
            vc.note(repr(out.value))
            return
        r = out.value
        kinds = tuple(getattr(g, k) for k in CI.RESULT_KINDS[name] if k)
        vc.ensure("result type is one of %s" % (CI.RESULT_KINDS[name],), r is None or isinstance(r, kinds))
        if not (r is None or isinstance(r, kinds)):
            return
        both = And(C.flat_member(x, a), C.flat_member(x, b))
        if r is None:
            vc.ensure("None => no common point on the carrier", Not(both))
        else:
            vc.ensure("every point of the result is common to both", Implies(C.flat_member(x, r), both))
            vc.ensure("every common point is in the result (whole overlap)", Implies(both, C.flat_member(x, r)))
            if isinstance(r, g.Segment):
                vc.ensure("result end points lie on the carrier and differ", And(SP.on_line(SP.vec(r.start_point), A0, d), SP.on_line(SP.vec(r.end_point), A0, d),
                                                                              Not(SP.veq(SP.vec(r.start_point), SP.vec(r.end_point)))))
            elif isinstance(r, g.Point):
                vc.ensure("result point lies on the carrier", SP.on_line(SP.vec(r), A0, d))
            elif isinstance(r, g.HalfLine):
                vc.ensure("result half-line lies on the carrier", And(SP.on_line(SP.vec(r.point), A0, d), SP.collinear(SP.vec(r.vector), d), SP.vnonzero(SP.vec(r.vector))))
        vc.ensure("frame: operands unchanged", (vc.snapshot(a), vc.snapshot(b)) == before)

    return h


def coord_stubs():
    C.remember_originals()
    return [(C.T_LINE_IN, C.x_line_contains_point), (C.T_PLANE_IN, C.x_plane_contains_point), (C.T_PAR, C.x_parallel), (C.T_ORT, C.x_orthogonal),
            (C.T_VEQ, C.x_vector_eq), (C.T_PEQ, C.x_point_eq), (C.T_SEG_IN, C.x_segment_contains_point), (C.T_HL_IN, C.x_halfline_contains_point),
            (C.T_PHASH, C.x_point_hash)]


def groups(tier):
    gs = []
    # 1. the dispatcher for the 25 ordered flat pairs (and the method form)
    for ta in FLAT_KINDS:
        for tb in FLAT_KINDS:
            calls = []
            gs.append(Group("dispatch[%s,%s]" % (ta, tb), CI.dispatch_harness(ta, tb, calls), [MOD + ":intersection", "Geometry3D.geometry.body:GeoBody.intersection"],
                            stubs=CI.recording_stubs(calls) + CI.membership_stubs(), world="SET", timeout_s=60, patches=False))
    # 2. composition handlers against their callees' contracts
    for name in FLAT_SET:
        gs.append(set_group(name))
    for name in FLAT_CROSSING:
        gs.append(set_group(name, flags=dict(lines_differ=True), suffix=", carriers differ", expect=["Line.__eq__"]))
    # 3. leaves over symbolic coordinates
    cs = coord_stubs()
    gs.append(Group("inter_line_plane[COORD]", h_line_plane, [MOD + ":inter_line_plane", "Geometry3D.geometry.plane:Plane.__contains__", "Geometry3D.calc.angle:parallel"],
                    stubs=cs, world="COORD", timeout_s=300, expect_hits=["Plane.__contains__", "Vector.orthogonal"]))
    gs.append(Group("inter_line_line[COORD]", h_line_line, [MOD + ":inter_line_line", "Geometry3D.geometry.line:Line.__eq__"],
                    stubs=cs + [(C.T_SOLVE, C.x_solve)], world="COORD", timeout_s=300, expect_hits=["solve", "Line.__contains__", "Vector.parallel"]))
    gs.append(Group("inter_plane_plane[COORD]", h_plane_plane, [MOD + ":inter_plane_plane", "Geometry3D.geometry.plane:Plane.__eq__", "Geometry3D.geometry.line:Line.__init__"],
                    stubs=cs + [(C.T_NORMALIZED, C.x_normalized), (C.T_ILP, C.x_inter_line_plane)], world="COORD", timeout_s=600, prove_ms=30000,
                    expect_hits=["Vector.normalized", "inter_line_plane"]))
    gs.append(Group("lemmas[parametric form, carriers]", h_lemma_parametric, ["spec:on_line", "spec:on_segment", "spec:on_halfline"], world="COORD", timeout_s=300))
    for name, ka, kb in (("inter_segment_segment", "S", "S"), ("inter_segment_halfline", "S", "H"), ("inter_halfline_halfline", "H", "H")):
        gs.append(Group("%s[COORD, collinear]" % name, collinear_harness(name, ka, kb), [MOD + ":" + name], stubs=cs, world="COORD", timeout_s=600,
                        expect_hits=["Point.__eq__"]))
    return gs


# ---------------------------------------------------------------------------
# bounded stand-in (cross-check of the proved contracts on CPython floats)
# ---------------------------------------------------------------------------

def bounded(tier, seed):
    from g3dvc import bounded as B
    per = 24 if tier == "quick" else 400
    return [("flat-flat catalogue (25 ordered pairs, designed positions, oblique poses)", B.flat_flat, (seed, per), 1800)]


def replay_case(case):
    from g3dvc import bounded as B
    return B.replay_intersection(case)
