"""C07 - move translates the object in place and keeps it self-consistent.

Contract on every move(v):  requires v is a Vector (else raises NotImplementedError);
ensures EVERY attribute of the receiver (cached carrier line, plane, centre
included) equals that of the object freshly constructed at the translated
position; the returned object is a different object, attribute-wise equal to the
receiver and shares no mutable state with it or with v; v is unchanged.
Because the representation invariant is the precondition of every query
contract and is re-established by move, any sequence of moves leaves every
query answering as on a fresh object (induction over the history).
"""
import copy

from g3dvc.runner import Group
from g3dvc.engine import mutable_ids
from g3dvc.sym import Sym, SymBool, F, And, Or, Not, Implies, Iff
from g3dvc import spec as SP
from contracts import common as C
from contracts.sem import sem_equal

PROPERTY = "C07"
LEVEL = "proof"
MANIFEST = dict(
    text=("Deductive proof of the contract of move() for Point (C18), Line, Plane, Segment and HalfLine over all positions and all vectors: after move(v) EVERY attribute of the receiver, cached carrier line included, "
          "equals that of the object freshly constructed at the translated position; the returned object is a different object, attribute-wise equal, and shares no mutable state with the receiver or with v; v is unchanged; "
          "move(v) then move(-v) restores every attribute; a non-Vector argument raises and leaves the receiver unchanged (all seven types). Since the re-established representation invariant is the precondition of every query contract, "
          "any sequence of moves leaves every query answering as on a fresh object."),
    note=("ConvexPolygon.move and ConvexPolyhedron.move (rebuild sorted vertex tuples / hash sets) are not proved in this revision; their non-Vector rejection is checked. A1, A5."),
    design_ref="DESIGN.md section 9 (C07)",
)
EXPLANATION = "move contracts proved attribute-wise against the fresh construction; history claims follow by induction from the re-established invariant"
BOUNDED_ONLY = ["Geometry3D.geometry.polygon:ConvexPolygon.move", "Geometry3D.geometry.polyhedron:ConvexPolyhedron.move"]
ASSUMES = ["A1", "A2", "A5", "A6"]


def fresh_like(g, kind, obj0, v):
    """the object freshly constructed at the translated position, from the receiver's defining data before the move"""
    tv = lambda p: g.Point(*SP.add(SP.vec(p), v))
    if kind == "Line":
        return g.Line(g.Point(*SP.add(SP.vec(obj0.sv), v)), g.Vector(*SP.vec(obj0.dv)))
    if kind == "Plane":
        pl = g.Plane.__new__(g.Plane)  # Plane(p + v, n) with the already-unit normal
        pl.p = tv(obj0.p)
        pl.n = g.Vector(*SP.vec(obj0.n))
        return pl
    if kind == "Segment":
        return g.Segment(tv(obj0.start_point), tv(obj0.end_point))
    if kind == "HalfLine":
        return g.HalfLine(tv(obj0.point), g.Vector(*SP.vec(obj0.vector)))
    raise KeyError(kind)


def move_harness(kind):
    def h(vc):
        g = C.G()
        obj = {"Line": C.line, "Plane": C.plane, "Segment": C.segment, "HalfLine": C.halfline}[kind](vc, "o")
        v = C.V(vc, "v")
        vv = SP.vec(v)
        obj0 = copy.deepcopy(obj)
        bv = vc.snapshot(v)
        out = vc.call(obj.move, v)
        vc.ensure("%s.move(Vector) does not raise" % kind, out.returned)
        if not out.returned:
            vc.note(repr(out.value))
            return
        r = out.value
        fresh_out = vc.call(fresh_like, g, kind, obj0, vv)
        if not fresh_out.returned:
            vc.note("fresh construction raised %r" % (fresh_out.value,))
            vc.fail("fresh construction at the translated position is possible")
            return
        fresh = fresh_out.value
        vc.ensure("receiver: every attribute (cached state included) equals that of the object freshly constructed at the translated position", sem_equal(obj, fresh))
        vc.ensure("returned object has the receiver's type", type(r) is type(obj))
        if type(r) is type(obj):
            vc.ensure("returned object equals the receiver attribute-wise", sem_equal(r, obj))
            vc.ensure("returned object is a different object", r is not obj)
            shared = mutable_ids(r) & mutable_ids(obj)
            vc.ensure("returned object shares no mutable state with the receiver", not shared)
            vc.ensure("returned object shares no mutable state with the vector", not (mutable_ids(r) & mutable_ids(v)))
        vc.ensure("frame: the vector is unchanged", vc.snapshot(v) == bv)
        vc.ensure("receiver shares no mutable state with the vector", not (mutable_ids(obj) & mutable_ids(v)))
        # moving back restores the original attribute-wise
        back = vc.call(obj.move, -v)
        vc.ensure("move(-v) does not raise", back.returned)
        if back.returned:
            vc.ensure("move(v) then move(-v) restores every attribute", sem_equal(obj, obj0))
        if vc.symbolic:
            vc.ensure("probe: move leaves the receiver where it was", sem_equal(obj, fresh), kind="must-fail")

    return h


def nonvector_harness(vc):
    """every geometry type: move with a non-Vector raises and changes nothing"""
    g = C.G()
    P, V = g.Point, g.Vector
    objs = [("Point", lambda: P(1, 2, 3)), ("Line", lambda: g.Line(P(1, 2, 3), V(2, 1, 2))), ("Plane", lambda: g.Plane(P(1, 2, 3), V(2, 1, 2))),
            ("Segment", lambda: g.Segment(P(1, 2, 3), P(2, 4, 4))), ("HalfLine", lambda: g.HalfLine(P(1, 2, 3), V(2, 1, 2))),
            ("ConvexPolygon", lambda: g.ConvexPolygon((P(0, 0, 0), P(2, 0, 0), P(2, 1, 0), P(0, 1, 0)))),
            ("ConvexPolyhedron", lambda: g.Parallelepiped(P(0, 0, 0), V(1, 0, 0), V(0, 2, 0), V(0, 0, 3)))]
    for name, mk in objs:
        for bad in (3, (1, 2, 3), None, "v", P(1, 1, 1), [1, 2, 3]):
            o = mk()
            before = vc.snapshot(o)
            out = vc.call(o.move, bad)
            vc.ensure("%s.move(%s) raises NotImplementedError / ValueError / TypeError (never returns)" % (name, type(bad).__name__),
                      out.raised(NotImplementedError, ValueError, TypeError))
            vc.ensure("%s.move(%s) leaves the receiver unchanged" % (name, type(bad).__name__), vc.snapshot(o) == before)


def groups(tier):
    from props.C01 import coord_stubs
    cs = coord_stubs()
    gs = []
    for kind, mod in (("Line", "line"), ("Plane", "plane"), ("Segment", "segment"), ("HalfLine", "halfline")):
        gs.append(Group("%s.move[all positions, all vectors]" % kind, move_harness(kind), ["Geometry3D.geometry.%s:%s.move" % (mod, kind), "Geometry3D.geometry.point:Point.move"],
                        stubs=cs + [(C.T_LENGTH, C.x_length), (C.T_NORMALIZED, C.x_normalized)], world="COORD", timeout_s=300))
    gs.append(Group("move(non-Vector)[all seven types]", nonvector_harness, ["Geometry3D.geometry.%s:%s.move" % (m, k) for k, m in
                    (("Point", "point"), ("Line", "line"), ("Plane", "plane"), ("Segment", "segment"), ("HalfLine", "halfline"), ("ConvexPolygon", "polygon"), ("ConvexPolyhedron", "polyhedron"))],
                    world="CONFIG", timeout_s=120, patches=False))
    return gs
