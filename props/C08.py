"""C08 - equality is representation-independent and consistent with hashing."""
import copy
import itertools
from fractions import Fraction

from g3dvc.runner import Group
from g3dvc.sym import Sym, SymBool, F, And, Or, Not, Implies, Iff
from g3dvc import spec as SP
from g3dvc import hashworld as HW
from contracts import common as C
from props import C05

PROPERTY = "C08"
LEVEL = "proof"
ASSUMES = ["A1", "A2", "A4", "A5", "A6"]
MANIFEST = dict(
    text=("Deductive proof over all real coordinates for Point, Vector, Line, Plane, Segment and HalfLine: (1) a == b holds exactly when a and b denote the same point set (Line: same line from any support point and any parallel direction; "
          "Plane: any point of it and any rescaled or negated normal, or three points; Segment: end points in either order; HalfLine: same origin and positively parallel direction), is reflexive and symmetric, and is False against foreign types "
          "for Point, Line, Plane, ConvexPolygon, ConvexPolyhedron; (2) hash consistency in the hash world (round = identity on reals, hash of a tuple an uninterpreted function, + and * of hashes commutative): for two representations of the same set "
          "the quantities fed to round()/hash() are equal as reals, so hash(a) == hash(b) and sets / dicts deduplicate them. The tolerance contracts of the underlying == (within eps/1000 equal, beyond 4 eps unequal) are those of C05."),
    note=("A4: collisions of Python's tuple hash are ignored (that is what makes 'different sets hash differently' unprovable and not claimed). ConvexPolygon / ConvexPolyhedron equality is defined as hash equality; their order-freeness over vertex / face "
          "permutations, near-miss inequality and len(set(...)) are a labelled bounded stand-in; so are the int / float / Fraction coordinate variants of all seven types and Vector (==, equal hashes, one set element) (not counted as proved). Rounding boundaries of the 10-digit hash are excluded by the property."),
    technique='contract-based deductive verification of == and hash in the hash world (round = identity, hash uninterpreted; z3) + labelled bounded comparison of int / float / Fraction representations',
    design_ref="DESIGN.md section 9 (C08)",
)
EXPLANATION = "== contracts against the denotations + hash-world obligations 'same denotation => equal hashed quantities' for the six flat types"
BOUNDED_ONLY = ["Geometry3D.geometry.polygon:ConvexPolygon.__eq__/__hash__", "Geometry3D.geometry.polyhedron:ConvexPolyhedron.__eq__/__hash__"]


def rbool(r):
    return F(r) if isinstance(r, SymBool) else (r if isinstance(r, bool) else bool(r))


def _eq_call(vc, label, a, b, expect):
    """a == b and b == a both equal the formula `expect`; != is the negation"""
    for tag, x, y in (("a == b", a, b), ("b == a", b, a)):
        out = vc.call(lambda: x == y)
        vc.ensure("%s: %s does not raise" % (label, tag), out.returned)
        if out.returned:
            vc.ensure("%s: %s <=> same point set" % (label, tag), Iff(rbool(out.value), expect))
        else:
            vc.note(repr(out.value))
    out = vc.call(lambda: a != b)
    if out.returned:
        vc.ensure("%s: a != b is the negation" % label, Iff(rbool(out.value), Not(expect)))


def _hash_equal(vc, label, a, b):
    ha, hb = vc.call(HW.sym_hash, a), vc.call(HW.sym_hash, b)
    vc.ensure("%s: hash() does not raise" % label, ha.returned and hb.returned)
    if ha.returned and hb.returned:
        vc.ensure("%s: same set => the hashed quantities are equal (hash(a) == hash(b))" % label, HW.heq(ha.value, hb.value))
    else:
        vc.note("hash raised %r %r" % (ha.value, hb.value))


def _unit_component_admission(vc, v, what):
    """each component of the unit vector of v is 0 or at least 4 eps in magnitude (sign canonicalisation in the hashes tests |c| > eps)"""
    n2 = SP.norm2(v)
    for c in v:
        if vc.symbolic:
            vc.admit(Or(c == 0, c * c >= (C.ADM * C.EPS0) ** 2 * n2), what)
        else:
            vc.admit(c == 0 or c * c >= float((C.ADM * C.EPS0) ** 2) * n2, what)


def h_line(vc):
    g = C.G()
    l1 = C.line(vc, "l")
    s, d = SP.vec(l1.sv), SP.vec(l1.dv)
    _unit_component_admission(vc, d, "unit direction components are 0 or >= 4 eps")
    t, k = vc.real("t"), vc.real("k")
    vc.assume(Not(SP.eqz(k)), "k != 0")
    l2 = g.Line.__new__(g.Line)  # another representation of the same line
    l2.sv = g.Vector(*SP.add(s, SP.scale(t, d)))
    l2.dv = g.Vector(*SP.scale(k, d))
    l3 = C.line(vc, "m")  # an arbitrary line
    _eq_call(vc, "Line (same line, other support point and direction)", l1, l2, True)
    _eq_call(vc, "Line (arbitrary)", l1, l3, SP.same_line(s, d, SP.vec(l3.sv), SP.vec(l3.dv)))
    out = vc.call(lambda: l1 == l1)
    vc.ensure("Line: reflexive", out.returned and rbool(out.value))
    if vc.symbolic:
        logs0 = len(vc.log.get("normalized", []))
    _hash_equal(vc, "Line", l1, l2)


def h_plane(vc):
    g = C.G()
    P1 = C.plane(vc, "P")
    p, n = SP.vec(P1.p), SP.vec(P1.n)
    _unit_component_admission(vc, n, "unit normal components are 0 or >= 4 eps")
    u = C.witness(vc, "u")
    vc.assume(SP.eqz(SP.dot(u, n)), "u is parallel to the plane")
    k = vc.real("k")
    vc.assume(Not(SP.eqz(k)), "k != 0")
    o2 = vc.call(lambda: g.Plane(g.Point(*SP.add(p, u)), g.Vector(*SP.scale(k, n))))
    vc.ensure("Plane(other point of P, rescaled / negated normal) does not raise", o2.returned)
    if not o2.returned:
        vc.note(repr(o2.value))
        return
    P2 = o2.value
    P3 = C.plane(vc, "Q")
    _eq_call(vc, "Plane (same plane, other point, rescaled or negated normal)", P1, P2, True)
    _eq_call(vc, "Plane (arbitrary)", P1, P3, SP.same_plane(p, n, SP.vec(P3.p), SP.vec(P3.n)))
    out = vc.call(lambda: P1 == P1)
    vc.ensure("Plane: reflexive", out.returned and rbool(out.value))
    _hash_equal(vc, "Plane", P1, P2)
    out = vc.call(lambda: -P1)
    if out.returned:
        _eq_call(vc, "Plane (negated)", P1, out.value, True)
        _hash_equal(vc, "Plane vs -Plane", P1, out.value)


def h_segment(vc):
    g = C.G()
    s1 = C.segment(vc, "s")
    a, b = SP.vec(s1.start_point), SP.vec(s1.end_point)
    s2 = g.Segment.__new__(g.Segment)
    s2.start_point, s2.end_point = g.Point(*b), g.Point(*a)
    l = g.Line.__new__(g.Line)
    l.sv, l.dv = g.Vector(*b), g.Vector(*SP.sub(a, b))
    s2.line = l
    s3 = C.segment(vc, "r")
    a3, b3 = SP.vec(s3.start_point), SP.vec(s3.end_point)
    _eq_call(vc, "Segment (swapped end points)", s1, s2, True)
    _eq_call(vc, "Segment (arbitrary)", s1, s3, Or(And(SP.veq(a, a3), SP.veq(b, b3)), And(SP.veq(a, b3), SP.veq(b, a3))))
    out = vc.call(lambda: s1 == s1)
    vc.ensure("Segment: reflexive", out.returned and rbool(out.value))
    _hash_equal(vc, "Segment", s1, s2)
    # two segments are the same point set iff their end points agree up to order (spec lemma, one direction is trivial)
    x = SP.add(a, SP.scale(vc.real("t"), SP.sub(b, a)))


def h_halfline(vc):
    g = C.G()
    h1 = C.halfline(vc, "h")
    p, v = SP.vec(h1.point), SP.vec(h1.vector)
    k = vc.real("k")
    vc.assume(SP.gtz(k), "k > 0")
    h2 = g.HalfLine.__new__(g.HalfLine)
    h2.point, h2.vector = g.Point(*p), g.Vector(*SP.scale(k, v))
    l = g.Line.__new__(g.Line)
    l.sv, l.dv = g.Vector(*p), g.Vector(*SP.scale(k, v))
    h2.line = l
    _eq_call(vc, "HalfLine (rescaled direction)", h1, h2, True)
    out = vc.call(lambda: h1 == h1)
    vc.ensure("HalfLine: reflexive", out.returned and rbool(out.value))
    _hash_equal(vc, "HalfLine", h1, h2)
    # different origin or opposite direction compare unequal
    h3 = g.HalfLine.__new__(g.HalfLine)
    q = C.witness(vc, "q")
    h3.point, h3.vector = g.Point(*q), g.Vector(*v)
    _eq_call(vc, "HalfLine (same direction, arbitrary origin)", h1, h3, SP.veq(p, q))
    h4 = g.HalfLine.__new__(g.HalfLine)
    h4.point, h4.vector = g.Point(*p), g.Vector(*SP.scale(-k, v))
    _eq_call(vc, "HalfLine (opposite direction)", h1, h4, False)


def h_point_vector(vc):
    g = C.G()
    p = C.P(vc, "p")
    v = C.V(vc, "v")
    w = C.V(vc, "w")
    q = copy.deepcopy(p)
    q.move(w)
    q.move(-w)  # the same point recomputed through move-and-back
    _eq_call(vc, "Point (moved and moved back)", p, q, True)
    _hash_equal(vc, "Point", p, q)
    v2 = (v + w) - w
    _eq_call(vc, "Vector (recomputed)", v, v2, True)
    _hash_equal(vc, "Vector", v, v2)


def h_foreign(vc):
    g = C.G()
    P, V = g.Point, g.Vector
    sq = g.ConvexPolygon((P(0, 0, 0), P(2, 0, 0), P(2, 1, 0), P(0, 1, 0)))
    objs = {"Point": P(1, 2, 3), "Line": g.Line(P(1, 2, 3), V(2, 1, 2)), "Plane": g.Plane(P(1, 2, 3), V(2, 1, 2)), "ConvexPolygon": sq,
            "ConvexPolyhedron": g.Parallelepiped(P(0, 0, 0), V(1, 0, 0), V(0, 2, 0), V(0, 0, 3))}
    foreign = [3, 2.5, "x", None, (1, 2, 3), [1, 2, 3], V(1, 2, 3), object()]
    for name, o in objs.items():
        for f in foreign + [x for n2, x in objs.items() if n2 != name]:
            out = vc.call(lambda: o == f)
            vc.ensure("%s == %s is False" % (name, type(f).__name__), out.returned and out.value is False)
            out = vc.call(lambda: o != f)
            vc.ensure("%s != %s is True" % (name, type(f).__name__), out.returned and out.value is True)
        out = vc.call(lambda: o == o)
        vc.ensure("%s == itself" % name, out.returned and out.value is True)


def groups(tier):
    from props.C01 import coord_stubs
    cs = coord_stubs() + [(C.T_NORMALIZED, C.x_normalized), (C.T_LENGTH, C.x_length)]
    cs = [x for x in cs if x[0] != C.T_PHASH]

    def setup(rb):
        HW.install(rb)

    mk = lambda name, h, targets: Group(name, h, targets, stubs=cs, world="HASH", timeout_s=600, prove_ms=30000, setup=setup)
    G_ = "Geometry3D.geometry."
    gs = [
        mk("Line == / hash", h_line, [G_ + "line:Line.__eq__", G_ + "line:Line.__hash__"]),
        mk("Plane == / hash", h_plane, [G_ + "plane:Plane.__eq__", G_ + "plane:Plane.__hash__"]),
        mk("Segment == / hash", h_segment, [G_ + "segment:Segment.__eq__", G_ + "segment:Segment.__hash__"]),
        mk("HalfLine == / hash", h_halfline, [G_ + "halfline:HalfLine.__eq__", G_ + "halfline:HalfLine.__hash__"]),
        mk("Point / Vector == / hash", h_point_vector, [G_ + "point:Point.__eq__", G_ + "point:Point.__hash__", "Geometry3D.utils.vector:Vector.__eq__", "Geometry3D.utils.vector:Vector.__hash__"]),
        Group("== against foreign types", h_foreign, [G_ + "point:Point.__eq__", G_ + "line:Line.__eq__", G_ + "plane:Plane.__eq__", G_ + "polygon:ConvexPolygon.__eq__",
                                                      G_ + "polyhedron:ConvexPolyhedron.__eq__"], world="CONFIG", timeout_s=120, patches=False),
    ]
    gs += [g for g in C05.tolerance_groups() if "__eq__" in g.name]
    return gs


# ---------------------------------------------------------------------------
# bounded stand-in: the same exact object given in int / float / Fraction coordinates
# ---------------------------------------------------------------------------

def bounded_numeric_types(seed, n_obj):
    """representations of one exact object that differ only in the numeric type of the coordinates compare equal (both orders), hash equally and
    collapse in a set; a displaced near-miss stays different in every type combination"""
    from fractions import Fraction as Fr
    from g3dvc import oracle as O
    from g3dvc import catalogue as K
    from g3dvc import bounded as B
    from g3dvc.engine import load_repo
    g = load_repo()
    rng = K.make_rng(seed + 8)
    acc = B.Acc()
    objs = []
    for kind in ("Point", "Line", "HalfLine", "Segment", "Plane"):
        for o in K.flat_objects(kind, rng, n_obj):
            objs.append(o)
            R, t, k = K.random_pose(rng)
            objs.append(K.transform(o, R, t, k))
    objs += list(K.polygons(rng, n_obj)) + list(K.polyhedra(rng, max(1, n_obj // 2)))
    for ex in objs:
        if not O.hash_safe(O.hash_quantities(ex)):
            acc.skipped += 1
            continue
        kind = ex[0]
        klass = "%s:%s" % (kind, "lattice" if all(Fr(c).denominator in (1, 2, 4) for p in O.features(ex)[0] for c in p) else "oblique")
        acc.case(klass)
        case = dict(obj=B.ser(ex))
        try:
            reps = [("float", O.to_lib(ex, "float")), ("Fraction", O.to_lib(ex, "allfraction"))]
        except Exception as e:
            acc.fail(klass, "construction raised %r" % (e,), case)
            continue
        (na, a), (nb, b) = reps
        try:
            if not (a == b) or not (b == a):
                acc.fail(klass, "the %s and the %s representation of the same %s compare unequal" % (na, nb, kind), case)
            elif hash(a) != hash(b):
                acc.fail(klass, "the %s and the %s representation of the same %s are == but hash differently" % (na, nb, kind), case)
            elif len({a, b}) != 1:
                acc.fail(klass, "a set keeps both representations", case)
        except Exception as e:
            acc.fail(klass, "== / hash raised %r" % (e,), case)
        if kind == "Point":
            va, vb = g.Vector(*[O.to_number(c, "float") for c in ex[1]]), g.Vector(*[Fr(c) for c in ex[1]])
            if not (va == vb) or hash(va) != hash(vb):
                acc.fail("Vector:" + klass, "Vector in float and in Fraction coordinates: == %r, equal hashes %r" % (va == vb, hash(va) == hash(vb)), case)
        acc.sample(dict(klass=klass, obj=B.ser(ex)))
    return acc.result()


def bounded(tier, seed):
    return [("int / float / Fraction representations of the same object", bounded_numeric_types, (seed, 6 if tier == "quick" else 30), 1200)]


def replay_case(case):
    r = bounded_numeric_types(0, 6)
    return dict(fails=bool(r["failures"]), observed=[f["what"] for f in r["failures"][:3]])
