"""./check <property> [--tier quick|thorough] | --replay <file> | --setup | --selftest"""
import argparse
import importlib
import json
import os
import sys
import time
from collections import Counter

ROOT = os.path.dirname(os.path.dirname(os.path.abspath(__file__)))
sys.path.insert(0, ROOT)
sys.dont_write_bytecode = True

from g3dvc import runner  # noqa: E402

ASSUMPTIONS = {
    "A1": "A1 machine arithmetic treated as mathematical: int/float/Fraction values are real numbers, rounding error is not modelled (only the bounded stand-in runs real floats)",
    "A2": "A2 Python semantics are CPython's own for everything but numbers; symbolic numbers follow real arithmetic; float() is the identity on them; division forks on a zero denominator; ** 0.5 / math.sqrt fork on a negative radicand",
    "A3": "A3 transcendental functions: acos only through monotonicity and its domain, atan2 only through the sign/cross-product characterisation of angular order, round(x,k) as an uninterpreted function of (x,k)",
    "A4": "A4 hashing: hash() of a tuple is an uninterpreted injective function of its components; sets of symbolic points deduplicate by == alone",
    "A5": "A5 admissions: every tolerance test met on a path is assumed to be exact or violated by the margin stated in the contract of that predicate (listed under coverage.admissions)",
    "A6": "A6 trusted: z3 5.1 / cvc5 1.0.3 / z3 4.8.12, the g3dvc engine (sym.py, engine.py, smt.py), the exact rational oracle of the bounded stand-in; shape bounds where stated",
}


def load_known():
    p = os.path.join(ROOT, "known_findings.json")
    if not os.path.exists(p):
        return dict(known=[], fixed=[])
    return json.load(open(p))


def match_known(known, prop, group, label, klass):
    for k in known.get("known", []):
        if k.get("property") != prop:
            continue
        if k.get("group") not in (None, "*", group):
            continue
        if k.get("label") not in (None, "*") and not label.startswith(k["label"]):
            continue
        if k.get("class") not in (None, "*", klass):
            continue
        return k
    return None


def _replay_values(args):
    modname, gname, values, tier = args
    from g3dvc import engine
    mod = importlib.import_module(modname)
    g = [x for x in mod.groups("thorough") if x.name == gname]
    if not g:
        return dict(status="nogroup")
    out = {}
    for mode, as_float in (("exact", False), ("float", True)):
        st, failed, checked, notes = engine.run_concrete(g[0].harness, values, as_float=as_float)
        out[mode] = dict(status=st, failed=failed, checked=checked, notes=notes[:8])
    return out


def _random_search(args):
    modname, gname, labels, seed = args
    from g3dvc import engine
    mod = importlib.import_module(modname)
    g = [x for x in mod.groups("thorough") if x.name == gname or ("frame of " + x.name) == gname]
    if not g:
        return dict(found={}, admitted_trials=0)
    return engine.run_random(g[0].harness, 400, seed, labels)


def replay_file(path):
    rp = json.load(open(path))
    modname = "props." + rp["property"]
    mod = importlib.import_module(modname)
    if rp.get("mode") == "bounded":
        r = mod.replay_case(rp["case"])
        print("replay %s: %s" % (path, json.dumps(r, default=str)))
        return 1 if r.get("fails") else 0
    r = _replay_values((modname, rp["group"], rp["values"], "thorough"))
    print("replay %s" % path)
    print("  obligation: %s / %s" % (rp["group"], rp["obligation"]))
    print("  expected  : every clause of the contract holds on the real function")
    rc = 0
    for mode in ("exact", "float"):
        m = r.get(mode, {})
        print("  observed (%s inputs): %s failed=%s notes=%s" % (mode, m.get("status"), m.get("failed"), m.get("notes")))
        if m.get("status") == "fail":
            rc = 1
    return rc


def write_replay(prop, group, ob, reproduced, extra):
    d = os.path.join(ROOT, "replays", prop)
    os.makedirs(d, exist_ok=True)
    safe = "".join(c if c.isalnum() or c in "-_." else "_" for c in "%s__%s__%s" % (group, ob["label"], ob.get("path", "")))[:150]
    path = os.path.join(d, safe + ".json")
    rec = dict(property=prop, group=group, obligation=ob["label"], path_decisions=ob.get("path"), kind=ob.get("kind"), mode="harness",
               values=ob.get("model", {}), solver=dict(status=ob["status"], backend=ob.get("backend"), seconds=ob.get("seconds"), detail=ob.get("detail", ""),
                                                      notes=ob.get("notes", [])),
               native_replay=reproduced, how_to_rerun="./check %s --replay %s" % (prop, os.path.relpath(path, ROOT)))
    rec.update(extra or {})
    json.dump(rec, open(path, "w"), indent=1, default=str)
    return os.path.relpath(path, ROOT)


def run_property(prop, tier, seed):
    t0 = time.time()
    mod = importlib.import_module("props." + prop)
    from contracts import common as _common
    _common.warm_shape_cache()
    if not os.environ.get("G3DVC_NO_HISTORY"):
        _common.benign_history()
    known = load_known()
    groups = [g for g in mod.groups(tier)]
    bounded = mod.bounded(tier, seed) if hasattr(mod, "bounded") else []
    only = os.environ.get("G3DVC_ONLY")
    if only:  # development aid: run a subset (the evidence then describes the subset only)
        keys = only.split(",")
        groups = [g for g in groups if any(k in g.name for k in keys)]
        bounded = [b for b in bounded if any(k in b[0] for k in keys)]
    verbose = os.environ.get("G3DVC_VERBOSE")

    def progress(key, msg):
        if verbose:
            print("  [%6.1fs] %s %s" % (time.time() - t0, key, "TIMEOUT" if msg.get("timeout") else (msg.get("error") or "")[:200]), flush=True)

    jobs = [(("G", g.name), runner._group_main, (g,), g.timeout_s) for g in groups]
    jobs += [(("B", k), runner._fn_main, (fn, args), t) for k, fn, args, t in bounded]
    results = runner.run_parallel(jobs, progress=progress)

    violations, known_lines, undecided, errors = [], [], [], []
    n_obl = n_dis = 0
    backends = Counter()
    solver_s = 0.0
    functions = {}
    stub_hits = Counter()
    admissions = set()
    samples = []
    paths_total = 0
    probes = probes_ok = 0
    probe_state = {}
    replay_jobs = []
    void = {}
    gmap = {g.name: g for g in groups}

    for g in groups:
        r = results.get(("G", g.name), dict(error="no result"))
        for t in g.targets:
            functions.setdefault(t, set()).add(g.world)
        if r.get("timeout") or r.get("error"):
            n_obl += 1
            undecided.append((g.name, "(whole group)", r.get("error", "")[:300]))
            if r.get("error") and not r.get("timeout"):
                errors.append((g.name, r["error"]))
        paths_total += r.get("paths", 0)
        solver_s += r.get("smt_stats", {}).get("solver_s", 0.0)
        for k, v in (r.get("stub_hits") or {}).items():
            stub_hits[k] += v
        admissions.update(r.get("admissions") or [])
        for sp in (r.get("sample_paths") or [])[:1]:
            if len(samples) < 12:
                samples.append(dict(group=g.name, world=g.world, **sp))
        for ob in r.get("obligations", []):
            if verbose and ob.get("seconds", 0) > 1.0:
                print("    slow: %s / %s [%s] %s %.1fs %s" % (g.name, ob["label"][:90], ob.get("path"), ob["status"], ob["seconds"], ob.get("backend")))
            if ob.get("kind") == "must-fail":
                # vacuity probe: a deliberately false clause; it has to be refuted on at least one path of its group
                probe_state.setdefault((g.name, ob["label"]), []).append(ob["status"])
                continue
            n_obl += 1
            if ob["status"] == "proved":
                n_dis += 1
                backends[ob["backend"]] += 1
            elif ob["status"] == "refuted" and g.callee_for:
                void.setdefault(g.name, []).append(ob["label"])
                undecided.append((g.name, ob["label"], "callee-contract clause refuted (%s): the proofs of %s that rest on it are void; their clauses are searched natively" % (
                    json.dumps(ob.get("model", {}), default=str)[:160], ", ".join(g.callee_for))))
            elif ob["status"] == "refuted":
                replay_jobs.append((g, ob))
            else:
                undecided.append((g.name, ob["label"], ob.get("detail", "") or ob.get("backend", "")))

    for (gn, lab), sts in probe_state.items():
        probes += 1
        if "refuted" in sts:
            probes_ok += 1
        else:
            errors.append((gn, "vacuity probe '%s' was not refuted on any path (%s)" % (lab, sorted(set(sts)))))

    # undecided clauses: random concrete search on the real code with the same harness (a failing input is a violation with a
    # native replay; finding none leaves the clause undecided)
    und_by_group = {}
    for gname, label, why in undecided:
        if gname in gmap and label != "(whole group)" and not gmap[gname].callee_for:
            und_by_group.setdefault(gname, []).append(label)
    for cg, labs in void.items():
        for dn in gmap[cg].callee_for:
            if dn in gmap:
                und_by_group[dn] = ["harness completed (all clauses: callee contract refuted)"]
    if und_by_group:
        sjobs = [((gn,), _random_search, (("props." + prop, gn, (None if any(l.startswith("harness completed") for l in labs) else labs), seed),), 180)
                 for gn, labs in und_by_group.items()]
        sres = runner.run_functions(sjobs)
        for gn, labs in und_by_group.items():
            rr = sres.get((gn,), {})
            fnd = (rr.get("value") or {}).get("found", {}) if rr.get("ok") else {}
            for lab, vals in fnd.items():
                ob = dict(label=lab, kind="ensures", path="random-search", status="refuted", backend="random concrete search (solver undecided)", seconds=0.0, model=vals, notes=[])
                replay_jobs.append((gmap[gn], ob))
                undecided[:] = [u for u in undecided if not (u[0] == gn and (u[1].startswith(lab) or lab.startswith(u[1]) or u[1].startswith("harness completed")))]

    # native replay of every counter-model
    rjobs = [((i,), _replay_values, (("props." + prop, g.name, ob.get("model", {}), tier),), 120) for i, (g, ob) in enumerate(replay_jobs)]
    rres = runner.run_functions([(k, fn, a, t) for k, fn, a, t in rjobs]) if rjobs else {}
    seen_v = set()
    for i, (g, ob) in enumerate(replay_jobs):
        rr = rres.get((i,), {})
        val = rr.get("value", {}) if rr.get("ok") else {}
        reproduced = any(val.get(m, {}).get("status") == "fail" for m in ("exact", "float"))
        klass = g.classify(ob["label"], ob.get("model", {})) if g.classify else "*"
        k = match_known(known, prop, g.name, ob["label"], klass)
        if k:
            line = "KNOWN-FINDING: property=%s %s [%s / %s / class %s]" % (prop, k.get("what", ""), g.name, ob["label"], klass)
            if line not in known_lines:
                known_lines.append(line)
            continue
        rp = write_replay(prop, g.name, ob, val, dict(config_class=klass, targets=g.targets))
        key = (g.name, ob["label"], klass)
        if key in seen_v:
            continue
        seen_v.add(key)
        violations.append("VIOLATION property=%s replay=%s obligation=%s/%s%s" % (
            prop, rp, g.name, ob["label"].replace(" ", "_"), "" if reproduced else " no-failing-input-found"))

    # bounded stand-in (never counted as proved)
    b_eval = b_cls = 0
    b_samples = []
    b_detail = {}
    for k, fn, args, t in bounded:
        r = results.get(("B", k), {})
        if r.get("timeout") or not r.get("ok"):
            errors.append(("bounded:" + k, r.get("error", "timeout")[:500]))
            undecided.append(("bounded:" + k, "(bounded task)", r.get("error", "timeout")[:200]))
            continue
        v = r["value"]
        b_eval += v.get("evaluations", 0)
        b_cls += len(set(v.get("classes", [])))
        b_detail[k] = dict(evaluations=v.get("evaluations", 0), classes=len(set(v.get("classes", []))), failures=len(v.get("failures", [])),
                           skipped=v.get("skipped", 0))
        b_samples += v.get("samples", [])[:2]
        for fl in v.get("failures", []):
            kk = match_known(known, prop, "bounded:" + k, fl.get("what", ""), fl.get("class", "*"))
            if kk:
                line = "KNOWN-FINDING: property=%s %s [bounded:%s class %s]" % (prop, kk.get("what", ""), k, fl.get("class"))
                if line not in known_lines:
                    known_lines.append(line)
                continue
            key = ("bounded", k, fl.get("class"))
            if key in seen_v:
                continue
            seen_v.add(key)
            d = os.path.join(ROOT, "replays", prop)
            os.makedirs(d, exist_ok=True)
            safe = "".join(c if c.isalnum() or c in "-_." else "_" for c in "bounded__%s__%s" % (k, fl.get("class", "")))[:150]
            path = os.path.join(d, safe + ".json")
            json.dump(dict(property=prop, mode="bounded", task=k, case=fl.get("case"), what=fl.get("what"), config_class=fl.get("class"),
                           expected=fl.get("expected"), observed=fl.get("observed"),
                           how_to_rerun="./check %s --replay %s" % (prop, os.path.relpath(path, ROOT))), open(path, "w"), indent=1, default=str)
            violations.append("VIOLATION property=%s replay=%s bounded=%s class=%s" % (prop, os.path.relpath(path, ROOT), k, fl.get("class")))

    level = getattr(mod, "LEVEL", "proof")
    if n_obl == 0 and not bounded:
        errors.append(("-", "zero obligations generated"))
    wall = round(time.time() - t0, 2)
    cov = dict(
        obligations=n_obl,
        discharged=n_dis,
        checker_cmd="./check %s --tier %s" % (prop, tier),
        trusted_base=[ASSUMPTIONS["A6"]] + list(getattr(mod, "TRUSTED", [])),
        functions_under_contract={t: sorted(w) for t, w in sorted(functions.items())},
        functions_bounded_only=list(getattr(mod, "BOUNDED_ONLY", [])),
        functions_not_verified=list(getattr(mod, "NOT_VERIFIED", [])),
        paths=paths_total,
        back_ends=dict(backends),
        solver_s=round(solver_s, 2),
        stub_hits=dict(stub_hits),
        admissions=sorted(admissions),
        vacuity_probes=dict(planted=probes, refuted_as_required=probes_ok),
        undecided=[dict(group=a, obligation=b, why=c) for a, b, c in undecided][:40],
        engine_errors=[dict(group=a, error=b[:400]) for a, b in errors][:20],
        bounded=dict(label="bounded stand-in: NOT counted in obligations/discharged", evaluations=b_eval, distinct_classes=b_cls, tasks=b_detail),
        evaluations=max(1, b_eval + paths_total),
        distinct_nontrivial=max(2, b_cls + paths_total),
        rule=getattr(mod, "RULE", "obligation = one ensures/raises/frame clause on one feasible path of the real function; bounded cases are catalogue inputs, distinct by configuration class"),
        samples=(samples + b_samples)[:14] or [dict(note="no sample")],
        explanation=getattr(mod, "EXPLANATION", ""),
        known_findings=known_lines,
        history_prelude=("off (G3DVC_NO_HISTORY)" if os.environ.get("G3DVC_NO_HISTORY") else "all obligations generated after this native use of the public API: " + _common.HISTORY),
        callee_contract_groups=[g.name for g in groups if g.callee_for],
        exhaustive=bool(getattr(mod, "EXHAUSTIVE", False)),
    )
    run_level = level
    if level == "proof" and (n_dis != n_obl or n_obl == 0):
        run_level = "other"
        cov["explanation"] = (cov.get("explanation") or "") + " [this run: %d of %d obligations discharged, so the run is not reported at proof level]" % (n_dis, n_obl)
    if not cov["explanation"]:
        cov["explanation"] = "contract-based deductive verification of the real functions; see DESIGN.md"
    ev = dict(property_id=prop, tier=tier, seed=seed, level=run_level, coverage=cov,
              assumptions=[ASSUMPTIONS[a] for a in getattr(mod, "ASSUMES", ["A1", "A2", "A5", "A6"])] + list(getattr(mod, "EXTRA_ASSUMPTIONS", [])),
              wall_s=wall, violations=len(violations))
    # runs against deliberately changed trees (seeded changes, behaviour-preserving patches) set G3DVC_EVIDENCE_DIR so that evidence/ only ever describes /repo itself
    evdir = os.environ.get("G3DVC_EVIDENCE_DIR") or os.path.join(ROOT, "evidence")
    os.makedirs(evdir, exist_ok=True)
    json.dump(ev, open(os.path.join(evdir, prop + ".json"), "w"), indent=1, default=str)

    for l in known_lines:
        print(l)
    seen_u = set()
    for a, b, c in undecided:
        if (a, b) in seen_u:
            continue
        seen_u.add((a, b))
        print("UNDECIDED property=%s obligation=%s/%s %s" % (prop, a, b, c.replace("\n", " ")[:200]))
    for a, b in errors:
        print("ENGINE-ERROR property=%s group=%s %s" % (prop, a, b.replace("\n", " | ")[:600]))
    for v in violations:
        print(v)
    print("%s tier=%s obligations=%d discharged=%d paths=%d bounded_evaluations=%d violations=%d undecided=%d wall=%.1fs" % (
        prop, tier, n_obl, n_dis, paths_total, b_eval, len(violations), len(undecided), wall))
    if violations:
        return 1
    if n_dis == 0 and b_eval == 0:
        return 3  # nothing could be checked at all: the machinery itself is broken
    # undecided clauses and engine errors are tool limits, not violations: they are printed above and recorded in the evidence
    # (the run is then not reported at proof level); the property held on everything that could be explored
    return 0


def setup():
    import z3
    assert z3.get_version_string().startswith("5."), z3.get_version_string()
    from g3dvc import engine, smt
    from g3dvc.sym import Sym
    engine.load_repo()
    x = z3.Real("x")
    v = smt.prove(x * x >= 0, [], 5000)
    assert v["status"] == "proved", v
    v = smt.prove(x * x > 0, [], 5000)
    assert v["status"] == "refuted", v
    for b in ("/usr/bin/cvc5", "/usr/bin/z3"):
        print("back end %s: %s" % (b, "present" if os.path.exists(b) else "MISSING (fallback disabled)"))
    os.makedirs(os.path.join(ROOT, "work"), exist_ok=True)
    os.makedirs(os.path.join(ROOT, "evidence"), exist_ok=True)
    print("g3dvc setup ok: z3 %s, repo %s" % (z3.get_version_string(), engine.repo_root()))
    return 0


def main(argv=None):
    ap = argparse.ArgumentParser(prog="check")
    ap.add_argument("property", nargs="?")
    ap.add_argument("--tier", default=os.environ.get("VERIF_TIER", "quick"), choices=["quick", "thorough"])
    ap.add_argument("--replay")
    ap.add_argument("--setup", action="store_true")
    ap.add_argument("--selftest", action="store_true")
    ap.add_argument("--only", help="comma-separated group-name substrings (development)")
    a = ap.parse_args(argv)
    if a.setup:
        return setup()
    if a.selftest:
        from g3dvc import selftest
        return selftest.main()
    if not a.property:
        ap.error("property id required")
    if a.replay:
        return replay_file(a.replay)
    if a.only:
        os.environ["G3DVC_ONLY"] = a.only
    seed = int(os.environ.get("VERIF_SEED", "0") or 0)
    return run_property(a.property, a.tier, seed)


if __name__ == "__main__":
    sys.exit(main())
