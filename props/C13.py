"""C13 - all queries commute with lattice isometries and uniform scaling."""
import itertools
import math
from fractions import Fraction

from g3dvc.runner import Group
from g3dvc.sym import Sym, SymBool, F, And, Or, Not, Implies, Iff
from g3dvc import spec as SP
from contracts import common as C

PROPERTY = "C13"
LEVEL = "other"
ASSUMES = ["A1", "A2", "A5", "A6"]
MANIFEST = dict(
    text=("Corollary + bounded. PROVED (lemmas over the spec functions, all real coordinates, each of the 48 signed axis permutations R, every translation t and every scale k > 0): the vocabulary in which all proved contracts are stated is "
          "equivariant - dot(Ru, Rv) = dot(u, v), cross(Ru, Rv) = det(R) R cross(u, v), and hence the denotations of Line, HalfLine, Segment, Plane, ConvexPolygon (orientation clause flips together with the normal) and ConvexPolyhedron, the squared-distance, "
          "cos^2, length^2, triangle-area^2 and determinant-volume specs map as stated (x |-> k R x + t; measures scale by k, k^2, k^3). Together with 'result = spec' (C01, C05, C06, C10, C11, C16, C17) this gives equivariance of the code for every function "
          "proved there; the axis-specific code the property's anchors name is covered by those contracts being orientation-free (solve for every zero pattern; circle frames for every normal; Plane(a, b, c, d) for every zero pattern; Line hash). "
          "BOUNDED (labelled): metamorphic runs on the remaining (bounded-only) functions and as a CPython cross-check - transform all operands with a symmetry, lattice translation and k in {1/2, 1, 2, 3}, compare intersection, membership, "
          "distance, angle, parallel, orthogonal, ==, length, area, volume."),
    note="The corollary inherits the assumptions of the contracts it composes (A1, A5; several C02/C03 handlers are only bounded-checked).",
    technique="equivariance lemmas over the spec functions (z3, 48 symmetries enumerated) + labelled bounded metamorphic stand-in",
    design_ref="DESIGN.md section 9 (C13)",
)
EXPLANATION = "equivariance of the spec vocabulary under the 48 cube symmetries, translation, scaling; bounded metamorphic runs"


def symmetries():
    out = []
    for perm in itertools.permutations(range(3)):
        for signs in itertools.product((1, -1), repeat=3):
            out.append((perm, signs))
    return out


def apply(R, v):
    perm, signs = R
    return tuple(signs[i] * v[perm[i]] for i in range(3))


def det(R):
    perm, signs = R
    inv = sum(1 for i in range(3) for j in range(i + 1, 3) if perm[i] > perm[j])
    return (-1) ** inv * signs[0] * signs[1] * signs[2]


def lemma_harness(R):
    def h(vc):
        u, v, w, x, t = C.witness(vc, "u"), C.witness(vc, "v"), C.witness(vc, "w"), C.witness(vc, "x"), C.witness(vc, "t")
        k = vc.real("k")
        vc.assume(SP.gtz(k), "k > 0")
        d = det(R)
        T = lambda p: SP.add(SP.scale(k, apply(R, p)), t)  # point map
        L = lambda q: SP.scale(k, apply(R, q))  # vector map
        vc.ensure("dot is invariant up to k^2", SP.eq(SP.dot(L(u), L(v)), k * k * SP.dot(u, v)))
        vc.ensure("cross(Ru, Rv) = det(R) R cross(u, v) (times k^2)", SP.veq(SP.cross(L(u), L(v)), SP.scale(d * k * k, apply(R, SP.cross(u, v)))))
        vc.ensure("differences of points map like vectors", SP.veq(SP.sub(T(u), T(v)), L(SP.sub(u, v))))
        vc.ensure("Line denotation", Iff(SP.on_line(T(x), T(u), L(v)), SP.on_line(x, u, v)))
        vc.ensure("HalfLine denotation", Iff(SP.on_halfline(T(x), T(u), L(v)), SP.on_halfline(x, u, v)))
        vc.ensure("Segment denotation", Iff(SP.on_segment(T(x), T(u), T(v)), SP.on_segment(x, u, v)))
        vc.ensure("Plane denotation (normal mapped as a vector)", Iff(SP.on_plane(T(x), T(u), L(v)), SP.on_plane(x, u, v)))
        # polygon edge clause n.((b - a) x (x - a)) >= 0 with the normal mapped by det(R) R (the orientation flips together with the normal)
        nrm = SP.scale(d, apply(R, w))
        vc.ensure("polygon edge clause (orientation flips with the normal)", Iff(SP.gez(SP.dot(nrm, SP.cross(SP.sub(T(v), T(u)), SP.sub(T(x), T(u))))), SP.gez(SP.dot(w, SP.cross(SP.sub(v, u), SP.sub(x, u))))))
        vc.ensure("polyhedron face clause", Iff(SP.lez(SP.dot(SP.sub(T(x), T(u)), apply(R, w))), SP.lez(SP.dot(SP.sub(x, u), w))))
        vc.ensure("squared distance scales by k^2", SP.eq(SP.norm2(SP.sub(T(u), T(v))), k * k * SP.norm2(SP.sub(u, v))))
        vc.ensure("cos^2 numerator / denominator scale alike (angles, parallel, orthogonal unchanged)",
                  SP.eq(SP.dot(L(u), L(v)) * SP.dot(L(u), L(v)) * SP.norm2(u) * SP.norm2(v), SP.dot(u, v) * SP.dot(u, v) * SP.norm2(L(u)) * SP.norm2(L(v))))
        vc.ensure("triangle area^2 scales by k^4", SP.eq(SP.norm2(SP.cross(SP.sub(T(v), T(u)), SP.sub(T(w), T(u)))), k * k * k * k * SP.norm2(SP.cross(SP.sub(v, u), SP.sub(w, u)))))
        vc.ensure("determinant volume scales by det(R) k^3", SP.eq(SP.det3(L(u), L(v), L(w)), d * k * k * k * SP.det3(u, v, w)))
        if vc.symbolic:
            vc.ensure("probe: the map is the identity", SP.veq(T(x), x), kind="must-fail")

    return h


def groups(tier):
    gs = []
    for R in symmetries():
        perm, signs = R
        name = "".join("%s%s" % ("+" if s > 0 else "-", "xyz"[p]) for p, s in zip(perm, signs))
        gs.append(Group("spec equivariance[R = (%s), all t, all k > 0]" % name, lemma_harness(R), ["spec:dot/cross/denotations/measures"], world="COORD", timeout_s=600, prove_ms=20000))
    return gs


# ---------------------------------------------------------------------------
# bounded stand-in: metamorphic runs
# ---------------------------------------------------------------------------

def bounded_metamorphic(seed, n):
    from g3dvc import oracle as O
    from g3dvc import catalogue as K
    from g3dvc import bounded as B
    from g3dvc.engine import load_repo
    g = load_repo()
    acc = B.Acc()
    rng = K.make_rng(seed + 13)

    def close(x, y, rel=1e-9):
        return abs(x - y) <= rel * max(1.0, abs(x), abs(y))

    pool = []
    for ka in B.FLAT:
        for kb in B.FLAT:
            pool += list(K.flat_pairs(ka, kb, rng, 40))
    bodies = list(K.polygons(rng, 3)) + list(K.polyhedra(rng, 3))
    for Kb in bodies:
        for kind in B.FLAT:
            pool += [(f, Kb, lab) for f, lab in K.flat_vs_convex(kind, Kb, rng, 24)]
    pool += list(K.convex_pairs(rng, 130))
    rng.shuffle(pool)

    def reps(o):
        """another exact representation of the same set (for the 'equality unchanged' clause)"""
        k_ = o[0]
        if k_ == "Line":
            return ("Line", O.add(o[1], O.scale(3, o[2])), O.scale(-2, o[2]))
        if k_ == "Plane":
            return ("Plane", o[1], O.scale(-3, o[2]))
        if k_ == "Segment":
            return ("Segment", o[2], o[1])
        if k_ == "HalfLine":
            return ("HalfLine", o[1], O.scale(2, o[2]))
        if k_ == "Polygon":
            return ("Polygon", tuple(reversed(o[1])))
        if k_ == "Polyhedron":
            return ("Polyhedron", tuple(tuple(reversed(f)) for f in reversed(o[1])))
        return o

    # equality of two representations of one set is True in every orientation (all 48 symmetries), hashes agree
    for a, b, label in pool[:60]:
        for o in (a, b):
            o2 = reps(o)
            for R in K.SYMMETRIES:
                klass = "== of two representations:%s" % o[0]
                acc.case(klass)
                x1, x2 = O.to_lib(K.transform(o, R, (1, -2, 3), 1), "float"), O.to_lib(K.transform(o2, R, (1, -2, 3), 1), "float")
                q = B._call(lambda: (x1 == x2, hash(x1) == hash(x2)))
                if q[0] == "exc" or q[1] != (True, True):
                    acc.fail(klass, "two representations of the same %s compare / hash %r in orientation %r" % (o[0], q[1], R), dict(a=B.ser(o), b=B.ser(o2), R=B.ser(R), t=B.ser((1, -2, 3)), k="1", label="representations"))
                    break
    # crossing lines whose directions have proportional projections onto a coordinate plane, with a ratio that is not a short binary fraction:
    # the elimination then meets a rounding residue where an exact zero belongs, in some of the 48 orientations only
    Fq = Fraction
    for u, v in ((("7/4", "9/4", "-2"), ("21/4", "27/4", "-3")), (("11/4", "15/4", "1"), ("-11/2", "-15/2", "3")), (("3", "7", "1/2"), ("9/2", "21/2", "-2")), (("5/4", "-7/4", "3"), ("15/4", "-21/4", "1"))):
        u, v = tuple(Fq(c) for c in u), tuple(Fq(c) for c in v)
        X = (Fq(1), Fq(1), Fq(1))
        for kind in ("Line", "Segment"):
            if kind == "Line":
                a0, b0 = ("Line", O.sub(X, u), u), ("Line", O.add(X, O.scale(2, v)), v)
            else:
                a0, b0 = ("Segment", O.sub(X, u), O.add(X, u)), ("Segment", O.sub(X, O.scale(Fq(1, 2), v)), O.add(X, v))
            for R in K.SYMMETRIES:
                for kk in (Fq(1), Fq(1, 2)):
                    a2, b2 = K.transform(a0, R, (0, 0, 0), kk), K.transform(b0, R, (0, 0, 0), kk)
                    klass = "%s,%s vertical-plane crossing" % (kind, kind)
                    acc.case(klass)
                    exp = O.intersect(a2, b2)
                    r = B._call(g.intersection, O.to_lib(a2, "float"), O.to_lib(b2, "float"))
                    if r[0] == "exc" or not O.matches(r[1], exp, 1e-7)[0]:
                        acc.fail(klass, "crossing %ss with directions proportional in a coordinate plane: intersection is %r in orientation %r, expected the crossing point" % (kind, r[1], R),
                                 dict(a=B.ser(a0), b=B.ser(b0), R=B.ser(R), t=B.ser((0, 0, 0)), k=str(kk), label="vertical-plane crossing"))
    count = 0
    while count < n:
        for a, b, label in pool:
            if count >= n:
                break
            R = rng.choice(K.SYMMETRIES)
            t = tuple(Fraction(rng.randint(-5, 5)) for _ in range(3))
            k = rng.choice((Fraction(1, 2), Fraction(1), Fraction(2), Fraction(3)))
            a2, b2 = K.transform(a, R, t, k), K.transform(b, R, t, k)
            r = O.intersect(a, b)
            r2 = O.intersect(a2, b2)
            if not (B.admitted(a, b, r) and B.admitted(a2, b2, r2)):
                acc.skipped += 1
                continue
            count += 1
            klass = "%s,%s" % (a[0], b[0])
            acc.case(klass)
            case = dict(a=B.ser(a), b=B.ser(b), R=B.ser(R), t=B.ser(t), k=str(k), label=label, variant=count)
            # the operands are built the same way before and after the transformation; the way rotates through the documented constructor
            # forms, general-form planes, receivers moved into place and Fraction coordinates (g3dvc.bounded.to_lib_variant)
            try:
                A, Bb, A2, B2 = B.to_lib_variant(g, a, count), B.to_lib_variant(g, b, count // 3), B.to_lib_variant(g, a2, count), B.to_lib_variant(g, b2, count // 3)
            except Exception as e:
                acc.fail(klass, "building the operands (variant %d) raised %r" % (count, e), case)
                continue
            kf = float(k)
            i1, i2 = B._call(g.intersection, A, Bb), B._call(g.intersection, A2, B2)
            if i1[0] == "exc" or i2[0] == "exc":
                acc.fail(klass, "intersection raised before / after the transformation: %r / %r" % (i1[1], i2[1]), case)
                continue
            exp2 = K.transform_result(r, R, t, k) if r is not None else None
            ok1, why1 = O.matches(i1[1], r, 1e-7)
            ok2, why2 = O.matches(i2[1], exp2, 1e-7)
            if ok1 != ok2 or not ok2:
                acc.fail(klass, "intersection does not commute with the transformation: original %s, transformed %s" % (why1, why2), case)
                continue
            for nm, f, scale in (("in", lambda x, y: x in y, None), ("==", lambda x, y: x == y, None), ("distance", g.distance, kf), ("angle", g.angle, 1.0), ("parallel", g.parallel, None), ("orthogonal", g.orthogonal, None)):
                q1, q2 = B._call(f, A, Bb), B._call(f, A2, B2)
                if q1[0] != q2[0]:
                    acc.fail(klass, "%s raises on one side of the transformation only (%r / %r)" % (nm, q1[1], q2[1]), case)
                    break
                if q1[0] == "exc":
                    continue
                if scale is None:
                    if bool(q1[1]) != bool(q2[1]) and not isinstance(q1[1], NotImplementedError):
                        acc.fail(klass, "%s changes under the transformation: %r -> %r" % (nm, q1[1], q2[1]), case)
                        break
                elif not close(q1[1] * scale, q2[1], 1e-7):
                    acc.fail(klass, "%s: %r * %r != %r" % (nm, q1[1], scale, q2[1]), case)
                    break
            for o1, o2 in ((A, A2), (Bb, B2)):
                for m, p in (("length", 1), ("area", 2), ("volume", 3)):
                    if hasattr(o1, m):
                        v1, v2 = B._call(getattr(o1, m)), B._call(getattr(o2, m))
                        if v1[0] == "exc" or v2[0] == "exc" or not close(v1[1] * kf ** p, v2[1]):
                            acc.fail(klass, "%s of %s: %r * k^%d != %r" % (m, type(o1).__name__, v1[1], p, v2[1]), case)
            acc.sample(dict(klass=klass, R=B.ser(R), k=str(k)))
    return acc.result()


def bounded(tier, seed):
    return [("metamorphic runs (48 symmetries, translations, k in {1/2, 1, 2, 3})", bounded_metamorphic, (seed, 300 if tier == "quick" else 5000), 3000)]


def replay_case(case):
    from g3dvc import oracle as O
    from g3dvc import catalogue as K
    from g3dvc import bounded as B
    from g3dvc.engine import load_repo
    g = load_repo()
    a, b, R, t, k = B.deser(case["a"]), B.deser(case["b"]), B.deser(case["R"]), B.deser(case["t"]), Fraction(case["k"])
    a2, b2 = K.transform(a, R, t, k), K.transform(b, R, t, k)
    r2 = O.intersect(a2, b2)
    v = case.get("variant")
    i2 = B._call(g.intersection, O.to_lib(a2, "float"), O.to_lib(b2, "float")) if v is None else B._call(lambda: g.intersection(B.to_lib_variant(g, a2, v), B.to_lib_variant(g, b2, v // 3)))
    bad = i2[0] == "exc" or not O.matches(i2[1], r2, 1e-7)[0]
    return dict(fails=bad, observed=repr(i2[1]), expected=B.ser(r2))
