"""Solver back ends: z3 (Python API, interruptible), then the command-line
cvc5 1.0.3 and z3 4.8.12 on the SMT-LIB dump of the same query."""
import os
import subprocess
import tempfile
import threading
import time
from fractions import Fraction

import z3

WORK = os.path.join(os.path.dirname(os.path.dirname(os.path.abspath(__file__))), "work")

STATS = {"queries": 0, "z3": 0, "z3-nlsat": 0, "cvc5-cli": 0, "z3-4.8-cli": 0, "solver_s": 0.0}


def _is_bool_const(f):
    return isinstance(f, bool)


def _norm(fs):
    out = []
    for f in fs:
        if f is True:
            continue
        if f is False:
            return None
        out.append(f)
    return out


def _check_inproc(fs, timeout_ms, tactic=None):
    """returns (status, model_or_reason)"""
    if tactic:
        s = z3.Tactic(tactic).solver()
    else:
        s = z3.Solver()
    s.set("timeout", int(timeout_ms))
    for f in fs:
        s.add(f)
    ctx = z3.main_ctx()
    fired = []

    def _kill():
        fired.append(1)
        try:
            ctx.interrupt()
        except Exception:
            pass

    timer = threading.Timer(timeout_ms / 1000.0 + 1.0, _kill)
    timer.daemon = True
    timer.start()
    try:
        r = s.check()
    except z3.Z3Exception as e:
        timer.cancel()
        return "unknown", "z3 exception: %s" % (e,)
    timer.cancel()
    if r == z3.sat:
        try:
            return "sat", s.model()
        except z3.Z3Exception as e:
            return "unknown", "model unavailable: %s" % (e,)
    if r == z3.unsat:
        return "unsat", None
    return "unknown", s.reason_unknown()


def to_smt2(fs, logic=None):
    s = z3.Solver()
    for f in fs:
        s.add(f)
    txt = s.to_smt2()
    return txt


def _run_cli(cmd, text, timeout_s):
    os.makedirs(WORK, exist_ok=True)
    fd, path = tempfile.mkstemp(suffix=".smt2", dir=WORK)
    try:
        with os.fdopen(fd, "w") as fh:
            fh.write(text)
        try:
            p = subprocess.run(cmd + [path], capture_output=True, text=True, timeout=timeout_s + 2)
        except subprocess.TimeoutExpired:
            return "unknown"
        out = (p.stdout or "").strip().splitlines()
        if out and out[0].strip() in ("sat", "unsat"):
            return out[0].strip()
        return "unknown"
    finally:
        try:
            os.unlink(path)
        except OSError:
            pass


def _race_cli(text, tsec):
    """start cvc5 and z3 4.8.12 on the SMT-LIB text; returns list of (name, Popen, path)"""
    os.makedirs(WORK, exist_ok=True)
    procs = []
    for name, cmd, prefix in (("z3-4.8.12", ["/usr/bin/z3", "-T:%d" % tsec], ""),
                              ("cvc5-1.0.3", ["/usr/bin/cvc5", "--tlimit=%d" % (tsec * 1000), "--nl-ext-tplanes"], "(set-logic ALL)\n")):
        if not os.path.exists(cmd[0]):
            continue
        fd, path = tempfile.mkstemp(suffix=".smt2", dir=WORK)
        with os.fdopen(fd, "w") as fh:
            fh.write(prefix + text)
        try:
            p = subprocess.Popen(cmd + [path], stdout=subprocess.PIPE, stderr=subprocess.DEVNULL, text=True)
        except OSError:
            os.unlink(path)
            continue
        procs.append((name, p, path))
    return procs


def _reap(procs):
    for name, p, path in procs:
        if p.poll() is None:
            try:
                p.kill()
            except OSError:
                pass
        try:
            p.communicate(timeout=5)
        except Exception:
            pass
        try:
            os.unlink(path)
        except OSError:
            pass


def check_sat(fs, timeout_ms=2000, portfolio=False, skip_default=False):
    """Satisfiability of the conjunction.  -> (status, model|None, backend)
    portfolio: z3 5.1 default tactic first; if undecided, z3 5.1 qfnra-nlsat
    in-process raced against the command-line cvc5 and z3 4.8.12 (only their
    `unsat` answers are used; a model always comes from z3 5.1)."""
    fs = _norm(fs)
    if fs is None:
        return "unsat", None, "trivial"
    if not fs:
        return "sat", None, "trivial"
    STATS["queries"] += 1
    t0 = time.time()
    procs = []
    try:
        if not (portfolio and skip_default):
            st, m = _check_inproc(fs, timeout_ms if not portfolio else min(timeout_ms, 4000))
            if st != "unknown":
                STATS["z3"] += 1
                return st, m, "z3-5.1"
            if not portfolio:
                return st, None, "z3-5.1"
        tsec = max(1, int(timeout_ms / 1000))
        procs = _race_cli(to_smt2(fs), tsec)
        found = {}
        ctx = z3.main_ctx()
        stop = threading.Event()

        def watch():
            deadline = time.time() + tsec + 2
            while not stop.is_set() and time.time() < deadline:
                alive = False
                for name, p, path in procs:
                    if p.poll() is None:
                        alive = True
                        continue
                    if name in found:
                        continue
                    try:
                        out = (p.stdout.read() or "").strip().splitlines()
                    except Exception:
                        out = []
                    found[name] = out[0].strip() if out else "unknown"
                    if found[name] == "unsat":
                        try:
                            ctx.interrupt()
                        except Exception:
                            pass
                        return
                if not alive:
                    return
                time.sleep(0.05)

        th = threading.Thread(target=watch, daemon=True)
        th.start()
        st, m = _check_inproc(fs, timeout_ms, tactic="qfnra-nlsat")
        if st != "unknown":
            stop.set()
            STATS["z3-nlsat"] += 1
            return st, m, "z3-5.1/qfnra-nlsat"
        th.join(max(0.0, tsec + 2 - (time.time() - t0)))
        stop.set()
        for name in ("z3-4.8.12", "cvc5-1.0.3"):
            if found.get(name) == "unsat":
                STATS["z3-4.8-cli" if name.startswith("z3") else "cvc5-cli"] += 1
                return "unsat", None, name
        return "unknown", None, "all"
    finally:
        _reap(procs)
        STATS["solver_s"] += time.time() - t0


def free_vars(f, acc=None):
    acc = set() if acc is None else acc
    seen = set()
    stack = [f]
    while stack:
        e = stack.pop()
        i = e.get_id()
        if i in seen:
            continue
        seen.add(i)
        if z3.is_const(e):
            if e.decl().kind() == z3.Z3_OP_UNINTERPRETED:
                acc.add(e.decl().name())
        elif z3.is_quantifier(e):
            stack.append(e.body())
        else:
            stack.extend(e.children())
    return acc


def cone(goal_fs, facts):
    """facts transitively sharing variables with the goal (dropping a
    hypothesis is sound for validity)."""
    gv = set()
    for g in goal_fs:
        if not isinstance(g, bool):
            free_vars(g, gv)
    fv = []
    for f in facts:
        fv.append(free_vars(f) if not isinstance(f, bool) else set())
    keep = [False] * len(facts)
    changed = True
    while changed:
        changed = False
        for i, f in enumerate(facts):
            if keep[i]:
                continue
            if not fv[i] or (fv[i] & gv):
                keep[i] = True
                gv |= fv[i]
                changed = True
    return [f for i, f in enumerate(facts) if keep[i]]


def prove(goal, facts, timeout_ms=10000, use_cone=True, portfolio=True, skip_default=False):
    """Validity of facts => goal.
    -> dict(status=proved|refuted|undecided, backend, seconds, model)"""
    t0 = time.time()
    if goal is True:
        return dict(status="proved", backend="trivial", seconds=0.0, model=None)
    facts = _norm(facts)
    if facts is None:
        return dict(status="proved", backend="trivial(facts false)", seconds=0.0, model=None)
    ng = z3.Not(goal) if goal is not False else True
    fs = cone([ng], facts) if use_cone else list(facts)
    st, m, be = check_sat(fs + [ng], timeout_ms, portfolio=portfolio, skip_default=skip_default)
    if st == "unsat":
        return dict(status="proved", backend=be, seconds=time.time() - t0, model=None)
    if st == "sat" and use_cone and len(fs) != len(facts):
        # the model must satisfy the dropped facts as well
        st2, m2, be2 = check_sat(list(facts) + [ng], timeout_ms, portfolio=False)
        if st2 == "sat":
            return dict(status="refuted", backend=be2, seconds=time.time() - t0, model=m2)
        if st2 == "unsat":
            return dict(status="proved", backend=be2, seconds=time.time() - t0, model=None)
        return dict(status="undecided", backend=be2, seconds=time.time() - t0, model=None)
    if st == "sat":
        return dict(status="refuted", backend=be, seconds=time.time() - t0, model=m)
    return dict(status="undecided", backend=be, seconds=time.time() - t0, model=None)


def model_value(m, t):
    """Python number for a z3 term under model m (Fraction where rational,
    float approximation for algebraic numbers)."""
    v = m.eval(t, model_completion=True)
    if z3.is_rational_value(v):
        return Fraction(v.numerator_as_long(), v.denominator_as_long())
    if z3.is_int_value(v):
        return Fraction(v.as_long())
    if z3.is_algebraic_value(v):
        a = v.approx(30)
        return Fraction(a.numerator_as_long(), a.denominator_as_long())
    if z3.is_true(v):
        return True
    if z3.is_false(v):
        return False
    return str(v)
