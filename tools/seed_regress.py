#!/usr/bin/env python3
"""tools/seed_regress.py [seed-id-substring ...]
Re-applies every stored seeded change (seeded/<id>/patch.diff) to a scratch copy of /repo's HEAD (never to /repo itself), checks that its demo still
fails there (a seed can be neutralised by a later fix: commit), runs the property's own check plus every check recorded as detecting it, and writes
seeded/REGRESSION.md.  The scratch copy lives under /tmp only while this runs."""
import json, os, subprocess, sys, shutil, tempfile
ROOT = "/verif"
flt = sys.argv[1:]
def run(cmd, cwd=None, env=None, timeout=7200):
    e = dict(os.environ); e.update(env or {})
    p = subprocess.run(cmd, shell=True, cwd=cwd, env=e, capture_output=True, text=True, timeout=timeout)
    return p.returncode, p.stdout + p.stderr
scr = tempfile.mkdtemp(prefix="seedrepo_")
rows = []
try:
    run("git -C /repo archive HEAD | tar -x -C %s" % scr)
    run("git init -q && git add -A && git -c user.email=x@x -c user.name=x commit -qm base", cwd=scr)
    for sid in sorted(os.listdir(os.path.join(ROOT, "seeded"))):
        d = os.path.join(ROOT, "seeded", sid)
        if not os.path.isdir(d) or (flt and not any(f in sid for f in flt)):
            continue
        meta = json.load(open(os.path.join(d, "meta.json")))
        prop = meta.get("property")
        checks = [prop] + [c for c, v in (meta.get("checks_run") or {}).items() if v.get("detected") and c != prop]
        rc, out = run("git apply %s" % os.path.join(d, "patch.diff"), cwd=scr)
        if rc != 0:
            rows.append((sid, prop, "patch no longer applies to HEAD", {}))
            run("git checkout -q -- . && git clean -fdq", cwd=scr)
            continue
        rc, out = run("PYTHONPATH=%s /venv/bin/python %s" % (scr, os.path.join(d, "demo.py")), cwd=scr)
        demo = rc
        det = {}
        for c in checks:
            rc, out = run("./check %s --tier quick" % c, cwd=ROOT, env=dict(G3DVC_REPO=scr))
            det[c] = (rc, len([l for l in out.splitlines() if l.startswith("VIOLATION")]))
        run("git checkout -q -- . && git clean -fdq", cwd=scr)
        rows.append((sid, prop, "demo exit %d" % demo, det))
        print(sid, "demo", demo, det, flush=True)
finally:
    shutil.rmtree(scr, ignore_errors=True)
    run("rm -rf %s/replays" % ROOT)
with open(os.path.join(ROOT, "seeded", "REGRESSION.md"), "w") as fh:
    fh.write("# Seeded changes re-run against the current HEAD of /repo (scratch copy)\n\n| seed | property | demo on HEAD+seed | checks (exit, violations) | detected |\n|---|---|---|---|---|\n")
    for sid, prop, demo, det in rows:
        ok = any(rc == 1 and n > 0 for rc, n in det.values())
        fh.write("| %s | %s | %s | %s | %s |\n" % (sid, prop, demo, ", ".join("%s %s" % (c, v) for c, v in det.items()), "yes" if ok else ("n/a" if demo != "demo exit 1" else "NO")))
print("missed:", [r[0] for r in rows if r[2] == "demo exit 1" and not any(rc == 1 and n > 0 for rc, n in r[3].values())])
