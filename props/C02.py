"""C02 - flat primitive vs convex polygon / polyhedron intersection is exact."""
from g3dvc.runner import Group
from contracts import inter as CI
from props.C01 import set_group, MOD

PROPERTY = "C02"
LEVEL = "other"
ASSUMES = ["A1", "A2", "A4", "A5", "A6"]

SET_HANDLERS = [
    ("inter_point_convexpolygon", None, None, ""),
    ("inter_point_convexpolyhedron", None, None, ""),
    ("inter_plane_convexpolygon", None, None, ""),
    ("inter_segment_convexpolygon", None, None, ""),
    ("inter_convexpolygon_halfline", None, None, ""),
    # the line is not contained in the polygon's plane (the coplanar branch iterates over the edges: bounded stand-in)
    ("inter_line_convexpolygon", {"inter_line_plane": ("Line",)}, None, ", line not in the polygon's plane"),
]
BOUNDED_ONLY = [
    MOD + ":inter_line_convexpolygon (coplanar branch)", MOD + ":inter_line_convexpolyhedron", MOD + ":inter_plane_convexpolyhedron",
    MOD + ":inter_segment_convexpolyhedron", MOD + ":inter_convexpolyhedron_halfline",
    "Geometry3D.calc.aux_calc:get_segment_from_point_list", "Geometry3D.calc.aux_calc:get_segment_convexpolyhedron_intersection_point_set",
    "Geometry3D.calc.aux_calc:get_segment_convexpolygon_intersection_point_set", "Geometry3D.calc.aux_calc:get_halfline_convexpolyhedron_intersection_point_set",
]


def set_groups():
    return [set_group(name, restrict=restrict, flags=flags, suffix=suffix) for name, restrict, flags, suffix in SET_HANDLERS]


def groups(tier):
    gs = set_groups()
    for k in ("ConvexPolygon", "ConvexPolyhedron"):
        for f in ("Point", "Line", "HalfLine", "Segment", "Plane"):
            for ta, tb in ((f, k), (k, f)):
                calls = []
                gs.append(Group("dispatch[%s,%s]" % (ta, tb), CI.dispatch_harness(ta, tb, calls), [MOD + ":intersection", "Geometry3D.geometry.body:GeoBody.intersection"],
                                stubs=CI.recording_stubs(calls) + CI.membership_stubs(), world="SET", timeout_s=60, patches=False))
    return gs
