"""C20 - queries are pure and composite objects own their data."""
import copy
from fractions import Fraction
import random

from g3dvc.runner import Group
from g3dvc.engine import mutable_ids, snapshot, load_repo
from g3dvc.sym import Sym, SymBool, F, And, Or, Not, Implies, Iff
from g3dvc import spec as SP
from contracts import common as C
from contracts.sem import sem_equal

PROPERTY = "C20"
LEVEL = "proof"
ASSUMES = ["A1", "A2", "A4", "A5", "A6"]
MANIFEST = dict(
    text=("Frame conditions, deductive: for every function proved in C01, C02, C03, C05, C10, C11 (intersection handlers, membership, distance, angle / parallel / orthogonal, on symbolic or opaque operands) the operands are "
          "structurally identical (attribute dictionaries, containers, numeric leaves, object identities) before and after the call on EVERY path; these checks are the 'frame:' clauses of those contracts, re-run here. "
          "Ownership clauses, deductive over all coordinates: Segment(Point, Point), Segment(Point, Vector), HalfLine(Point, Point), HalfLine(Point, Vector) and Line(Point, Point) share no mutable object with their arguments "
          "and leave them unchanged; a deep copy of a Line / Plane / Segment / HalfLine is attribute-wise equal and shares nothing. "
          "The only documented global state (the tolerance pair) is not written by any query (C19's frame); state hidden outside the objects (memoised answers, class-level caches) is outside what per-call frames express and is covered by the history prelude and the bounded histories below."),
    note=("ConvexPolygon / ConvexPolyhedron construction and the builders, ==, hash, repr, length, area, volume on concrete catalogue objects, the same question asked again after the caller moved the answer or an operand (every designed pair of every type combination), negation of polygons, class-level attributes, and random interleavings of queries, constructions from shared Points, in-place mutations of the shared "
          "arguments and deep copies with full attribute snapshots are a labelled bounded stand-in (not counted as proved). A4: hash sets deduplicate by ==."),
    technique='contract-based deductive verification of frame and ownership clauses on every path of every proved query contract (z3) + labelled bounded differential histories (queries, in-place moves, repeated questions, tolerance as state) against freshly built objects',
    design_ref="DESIGN.md section 9 (C20), section 2.2 (frame conditions)",
)
EXPLANATION = "frame clauses of all proved query contracts + ownership clauses of the flat constructors; heap shape is concrete on each path, so the structural comparison is exact per path"
FRAME = ("frame:",)


def ownership_harness(kind, form):
    def h(vc):
        g = C.G()
        a = C.P(vc, "a")
        b = C.P(vc, "b") if form == "PP" else C.V(vc, "b")
        if form == "PP":
            vc.assume(Not(SP.veq(SP.vec(a), SP.vec(b))), "the two points differ")
        else:
            vc.assume(SP.gez(SP.norm2(SP.vec(b)) - (C.ADM * C.EPS0) ** 2), "the vector is not shorter than 4 eps")
        before = (vc.snapshot(a), vc.snapshot(b))
        cls = getattr(g, kind)
        out = vc.call(cls, a, b)
        vc.ensure("%s(%s) does not raise" % (kind, form), out.returned)
        if not out.returned:
            vc.note(repr(out.value))
            return
        o = out.value
        vc.ensure("ownership: the new %s shares no mutable object with its arguments" % kind, not (mutable_ids(o) & (mutable_ids(a) | mutable_ids(b))))
        vc.ensure("frame: arguments unchanged", (vc.snapshot(a), vc.snapshot(b)) == before)
        snap = vc.snapshot(o)
        # later mutation of the arguments does not reach the object
        a.move(g.Vector(1, 2, 3))
        a[0] = 99
        if form == "PP":
            b.move(g.Vector(-3, 1, 1))
            b[2] = -7
        else:
            b[1] = 5
        vc.ensure("ownership: mutating the arguments afterwards leaves the %s unchanged" % kind, vc.snapshot(o) == snap)
        # deep copy: equal and independent
        cp = copy.deepcopy(o)
        vc.ensure("deepcopy: attribute-wise equal", sem_equal(cp, o))
        vc.ensure("deepcopy: shares no mutable object with the original", not (mutable_ids(cp) & mutable_ids(o)))

    return h


def deepcopy_harness(vc):
    g = C.G()
    for name, mk in (("Line", C.line), ("Plane", C.plane), ("Point", C.P), ("Vector", C.V)):
        o = mk(vc, name.lower())
        snap = vc.snapshot(o)
        cp = copy.deepcopy(o)
        vc.ensure("deepcopy(%s): attribute-wise equal" % name, sem_equal(cp, o))
        vc.ensure("deepcopy(%s): shares no mutable object with the original" % name, not (mutable_ids(cp) & mutable_ids(o)))
        vc.ensure("frame: deepcopy leaves the original unchanged", vc.snapshot(o) == snap)


def groups(tier):
    from props import C01, C02, C03, C05, C10, C11
    gs = []
    seen = set()
    for mod in (C01, C02, C03, C05, C11, C10):
        for grp in mod.groups(tier):
            if grp.name.startswith("dispatch[") or grp.name in seen or "lemma" in grp.name or "admission" in grp.name:
                continue
            if mod is C10 and "Line,Line" in grp.name:
                continue  # its frame clause is re-run in C10 itself; the path exploration is the expensive part
            seen.add(grp.name)
            grp.name = "frame of " + grp.name
            grp.label_filter = FRAME
            grp.expect_hits = []
            gs.append(grp)
    for kind, mod in (("Segment", "segment"), ("HalfLine", "halfline")):
        for form in ("PP", "PV"):
            gs.append(Group("ownership %s(%s)" % (kind, form), ownership_harness(kind, form), ["Geometry3D.geometry.%s:%s.__init__" % (mod, kind)],
                            stubs=[(C.T_VEQ, C.x_vector_eq), (C.T_PEQ, C.x_point_eq), (C.T_LENGTH, C.x_length)], world="COORD", timeout_s=120))
    gs.append(Group("ownership Line(PP)", ownership_harness("Line", "PP"), ["Geometry3D.geometry.line:Line.__init__"], stubs=[(C.T_VEQ, C.x_vector_eq)], world="COORD", timeout_s=120))
    gs.append(Group("deepcopy of flat objects", deepcopy_harness, ["copy.deepcopy on Line/Plane/Point/Vector"], world="COORD", timeout_s=120))
    return gs


# ---------------------------------------------------------------------------
# bounded stand-in: native interleavings with full attribute snapshots
# ---------------------------------------------------------------------------

def _native_snapshot(o):
    return snapshot(o)


def B_same(r1, r2):
    from g3dvc import bounded as B_
    return B_.same_lib_result(r1, r2)


def _chord(g, body):
    """the line through the two lexicographically smallest vertices of a polygon / polyhedron (independent of vertex and face order; keys rounded so
    that float noise of a moved object does not reorder ties)"""
    pts = list(body.points) if isinstance(body, g.ConvexPolygon) else list(body.point_set)
    pts.sort(key=lambda p: (round(float(p.x), 6), round(float(p.y), 6), round(float(p.z), 6)))
    return g.Line(copy.deepcopy(pts[0]), copy.deepcopy(pts[1]))


def _class_state(g):
    """public data attributes stored on the library's classes (private class-level caches are not observable by themselves; what they do to answers is compared by the repeated queries and the factory clauses)"""
    out = []
    for name in ("Vector", "Point", "Line", "Plane", "Segment", "HalfLine", "ConvexPolygon", "ConvexPolyhedron", "Pyramid"):
        cls = getattr(g, name)
        for k, v in sorted(vars(cls).items()):
            if k.startswith("_") or callable(v) or isinstance(v, (classmethod, staticmethod, property)):
                continue
            out.append((name, k, snapshot(v)))
    return tuple(out)


def bounded_interleavings(seed, n_hist, steps):
    from g3dvc import oracle as O
    from g3dvc import catalogue as K
    g = load_repo()
    rng = K.make_rng(seed + 20)
    P, V = g.Point, g.Vector
    ev = 0
    classes = set()
    failures = []
    samples = []
    import Geometry3D.utils.constant as CONST

    def fail(klass, what, case):
        if len(failures) < 6 and klass not in [f["class"] for f in failures]:
            failures.append({"class": klass, "what": what, "case": case})

    exacts = {}

    def make_pool():
        pool = []
        exacts.clear()
        descr = []
        for kind in ("Point", "Line", "HalfLine", "Segment", "Plane"):
            for o in K.flat_objects(kind, rng, 2):
                R, t, k = K.random_pose(rng)
                descr.append(K.transform(o, R, t, k))
        descr += list(K.polygons(rng, 2)) + list(K.polyhedra(rng, 2))
        for ex in descr:
            lib = O.to_lib(ex, "float")
            pool.append(lib)
            exacts[id(lib)] = ex
        return pool

    def close(x, y):
        return abs(x - y) <= 1e-9 * max(1.0, abs(x), abs(y))

    def same_answer(qn, r1, r2):
        from g3dvc import bounded as B_
        if qn == "intersection":
            return B_.same_lib_result(r1, r2)
        if qn in ("in", "==", "parallel", "orthogonal"):
            return bool(r1) == bool(r2)
        if qn in ("distance", "angle"):
            return close(r1, r2)
        if qn == "measures":
            return len(r1) == len(r2) and all(close(x, y) for x, y in zip(r1, r2))
        return True  # hash / repr of a moved object carry float noise in the last digits: compared by the repeated query above only

    queries = [
        ("intersection", lambda a, b: g.intersection(a, b)), ("in", lambda a, b: a in b), ("==", lambda a, b: a == b), ("hash", lambda a, b: (hash(a), hash(b))),
        ("repr", lambda a, b: (repr(a), repr(b))), ("distance", lambda a, b: g.distance(a, b)), ("angle", lambda a, b: g.angle(a, b)), ("parallel", lambda a, b: g.parallel(a, b)),
        ("intersection", lambda a, b: g.intersection(a, _chord(g, a)) if isinstance(a, (g.ConvexPolygon, g.ConvexPolyhedron)) else g.intersection(b, a)),  # a line inside the plane / through two vertices
        ("orthogonal", lambda a, b: g.orthogonal(a, b)), ("measures", lambda a, b: [getattr(x, m)() for x in (a, b) for m in ("length", "area", "volume") if hasattr(x, m)]),
    ]
    for hnum in range(n_hist):
        g.set_eps()
        if hnum % 2 == 1:
            g.set_sig_figures(8)  # every other history runs under a non-default tolerance: a query that resets the tolerance to its default is then seen by the frame comparison
        pool = make_pool()
        for step in range(steps):
            qn, q = rng.choice(queries)
            a, b = rng.choice(pool), rng.choice(pool)
            klass = "%s(%s,%s)" % (qn, type(a).__name__, type(b).__name__)
            snaps = [_native_snapshot(x) for x in pool]
            glob = (CONST.FLOAT_EPS, CONST.SIG_FIGURES, _class_state(g))
            try:
                r1 = q(a, b)
                ok1 = True
            except Exception as e:  # unsupported pairs raise; that is fine, purity is what is checked
                r1, ok1 = repr(type(e)), False
            ev += 1
            classes.add(klass)
            after = [_native_snapshot(x) for x in pool]
            if after != snaps:
                fail(klass, "query changed an attribute of an object", dict(query=qn, a=repr(a), b=repr(b)))
            if (CONST.FLOAT_EPS, CONST.SIG_FIGURES, _class_state(g)) != glob:
                fail(klass, "query changed global state (tolerance or a class-level attribute)", dict(query=qn))
            # same query again gives the same answer (no dependence on the history)
            try:
                r2 = q(a, b)
                ok2 = True
            except Exception as e:
                r2, ok2 = repr(type(e)), False
            if ok1 != ok2 or (ok1 and repr(r1) != repr(r2)):
                fail(klass, "repeating the query gave a different answer", dict(query=qn, a=repr(a), b=repr(b), first=repr(r1), second=repr(r2)))
            if len(samples) < 2 and ok1:
                samples.append(dict(query=klass, a=repr(a)[:80], b=repr(b)[:80]))
            # the same question about objects freshly built at the current positions (the pool objects have a history of queries and in-place moves)
            try:
                fa, fb = O.to_lib(exacts[id(a)], "float"), O.to_lib(exacts[id(b)], "float")
                rf, okf = q(fa, fb), True
            except Exception as e:
                rf, okf = repr(type(e)), False
            if ok1 != okf or (ok1 and not same_answer(qn, r1, rf)):
                fail("history:" + klass, "an object with a history of queries and in-place moves answers differently from a freshly built equal object",
                     dict(query=qn, a=repr(a), b=repr(b), answer=repr(r1)[:200], fresh=repr(rf)[:200]))
            # hidden state behind the query (memoised results, cached helper objects): the caller mutates the object it was handed, or moves an
            # operand; the same question about unchanged / equal operands must still get the first answer
            if qn == "intersection" and ok1 and r1 is not None and hasattr(r1, "move"):
                first = repr(r1)
                pool_ids = set()
                for x in pool:
                    pool_ids |= mutable_ids(x)
                if not (mutable_ids(r1) & pool_ids):  # (a pass-through result is the operand itself: mutating it would change the question)
                    a0, b0 = copy.deepcopy(a), copy.deepcopy(b)
                    keep = copy.deepcopy(r1)
                    r1.move(V(3, -1, 2))
                    ev += 1
                    classes.add("requery:" + klass)

                    def same(x):  # the same set as the first answer (vertex order of a polygon is free)
                        try:
                            return type(x) is type(keep) and bool(x == keep)
                        except Exception:
                            return False
                    for lab, qa, qb in (("same operands", a, b), ("equal operands (deep copies taken before the first query)", a0, b0)):
                        try:
                            r3v = q(qa, qb)
                            r3 = repr(r3v)
                        except Exception as e:
                            r3v, r3 = None, repr(type(e))
                        if r3 != first and not same(r3v):
                            fail("requery:" + klass, "the caller moved the result of a query; asking again (%s) gave a different answer" % lab,
                                 dict(query=qn, a=repr(a), b=repr(b), first=first, second=r3))
                    # an operand is moved away (in place); an equal copy taken before still gets the first answer
                    if a is not b and hasattr(a, "move") and not isinstance(a, g.Point):
                        back = V(-4, 6, -5)
                        a.move(V(4, -6, 5))
                        try:
                            r4v = q(a0, b0)
                            r4 = repr(r4v)
                        except Exception as e:
                            r4v, r4 = None, repr(type(e))
                        a.move(back)
                        if r4 != first and not same(r4v):
                            fail("requery:" + klass, "an operand was moved in place after the query; equal operands at the old position got a different answer",
                                 dict(query=qn, a=repr(a0), b=repr(b0), first=first, second=r4))
            # now and then an object of the pool is moved in place (a legitimate mutation; its description moves along)
            if rng.random() < 0.2:
                x = rng.choice(pool)
                mv = tuple(Fraction(rng.randint(-4, 4), rng.choice((1, 2))) for _ in range(3))
                try:
                    x.move(V(*[O.to_number(c, "float") for c in mv]))
                    exacts[id(x)] = K.transform(exacts[id(x)], K.IDENTITY, mv, 1)
                except Exception as e:
                    fail("history:move", "move raised %r" % (e,), dict(obj=repr(x)))
        # every body of the pool: ask for its measures (whatever is computed on first use is computed now), move it in place, then ask questions whose
        # answers depend on the edges and faces; a freshly built equal body must give the same answers
        for x in list(pool):
            if not isinstance(x, (g.ConvexPolygon, g.ConvexPolyhedron, g.Segment, g.HalfLine)):
                continue
            kname = "history:measure-move-probe(%s)" % type(x).__name__
            try:
                for m in ("length", "area", "volume"):
                    if hasattr(x, m):
                        getattr(x, m)()
                hash(x)
                mv = (Fraction(3, 2), Fraction(-2), Fraction(1, 2))
                x.move(V(*[O.to_number(c, "float") for c in mv]))
                exacts[id(x)] = K.transform(exacts[id(x)], K.IDENTITY, mv, 1)
                fx = O.to_lib(exacts[id(x)], "float")
                ev += 1
                classes.add(kname)
                if isinstance(x, (g.ConvexPolygon, g.ConvexPolyhedron)):
                    probes_ = [("chord", lambda o: g.intersection(o, _chord(g, o))), ("length", lambda o: o.length()), ("area", lambda o: o.area())]
                else:
                    probes_ = [("carrier", lambda o: g.intersection(o, g.Line(o.line.sv, o.line.dv))), ("hash", lambda o: 0)]
                for pn, pf in probes_:
                    r1, rf = pf(x), pf(fx)
                    okp = B_same(r1, rf) if not isinstance(r1, (int, float)) else close(r1, rf)
                    if not okp:
                        fail(kname, "after measures and an in-place move, %s gives %r; on a freshly built equal object %r" % (pn, r1, rf), dict(obj=repr(x)))
                if not (x == fx and fx == x and hash(x) == hash(fx)):
                    fail(kname, "after measures and an in-place move the object is not == / hash-equal to a freshly built equal object", dict(obj=repr(x)))
            except Exception as e:
                fail(kname, "raised %r" % (e,), dict(obj=repr(x)))
        # factory functions keep returning what their names say after their results were mutated / used in moved objects
        z = g.Vector.zero()
        g.Line(z, V(1, 2, 2)).move(V(2, -1, 2))
        g.origin().move(V(1, 1, 1))
        ev += 1
        classes.add("factories")
        if tuple(g.Vector.zero()) != (0, 0, 0) or tuple(g.origin()) != (0, 0, 0) or tuple(g.x_unit_vector()) != (1, 0, 0):
            fail("factories", "Vector.zero() / origin() / x_unit_vector() changed after an object built from an earlier result was moved", dict(kind="factory"))
        # ownership: build composites from shared points, mutate the points, compare
        pts = [P(rng.randint(-8, 8), rng.randint(-8, 8), rng.randint(-8, 8)) for _ in range(4)]
        if len(set((p.x, p.y, p.z) for p in pts)) == 4:
            builders = [("Segment", lambda: g.Segment(pts[0], pts[1])), ("HalfLine", lambda: g.HalfLine(pts[0], pts[1])), ("Line", lambda: g.Line(pts[0], pts[1]))]
            tri = None
            try:
                tri = g.ConvexPolygon((pts[0], pts[1], pts[2]))
                builders.append(("ConvexPolygon", lambda: g.ConvexPolygon((pts[0], pts[1], pts[2]))))
            except Exception:
                pass
            for name, mk in builders:
                try:
                    o = mk()
                except Exception:
                    continue
                snap = _native_snapshot(o)
                cp = copy.deepcopy(o)
                ev += 1
                classes.add("ownership:" + name)
                saved = [(p.x, p.y, p.z) for p in pts]
                pts[0].move(V(1, 1, 1))
                pts[1][0] = 42
                if _native_snapshot(o) != snap:
                    fail("ownership:" + name, "mutating the constructor arguments changed the object", dict(kind=name))
                if not (cp == o) or (mutable_ids(cp) & mutable_ids(o)):
                    fail("ownership:" + name, "deep copy not equal / not independent", dict(kind=name))
                for p, s in zip(pts, saved):
                    p.x, p.y, p.z = s
        # -polygon is a ConvexPolygon constructed from the polygon's points: it owns its data, moving either leaves the other alone
        # (a Plane keeps the Point it is given - the property does not list Plane among the owning types - so -plane is not examined)
        for x in list(pool):
            if not isinstance(x, g.ConvexPolygon):
                continue
            try:
                nx = -x
            except Exception as e:
                fail("negation:" + type(x).__name__, "negation raised %r" % (e,), dict(obj=repr(x)))
                continue
            ev += 1
            classes.add("negation:" + type(x).__name__)
            sx, snx = _native_snapshot(x), _native_snapshot(nx)
            if mutable_ids(nx) & mutable_ids(x):
                fail("negation:" + type(x).__name__, "-x shares mutable state with x", dict(obj=repr(x)))
            nx.move(V(1, 2, -3))
            if _native_snapshot(x) != sx:
                fail("negation:" + type(x).__name__, "moving -x changed x", dict(obj=repr(x)))
            nx.move(V(-1, -2, 3))
            x2 = copy.deepcopy(x)
            x2.move(V(2, 2, 2))
        # a deep copy of a body is equal to it, shares nothing with it and keeps its answers when the original is moved far away afterwards
        for x in list(pool):
            if not isinstance(x, (g.ConvexPolyhedron, g.ConvexPolygon)):
                continue
            kname = "deepcopy:" + type(x).__name__
            try:
                cp = copy.deepcopy(x)
                ev += 1
                classes.add(kname)
                before = (_native_snapshot(cp), [getattr(cp, m)() for m in ("length", "area", "volume") if hasattr(cp, m)], g.volume(cp) if isinstance(cp, g.ConvexPolyhedron) else 0)
                if not (cp == x and x == cp) or (mutable_ids(cp) & mutable_ids(x)):
                    fail(kname, "deep copy not equal to / not independent of the original (shared mutable objects: %d)" % len(mutable_ids(cp) & mutable_ids(x)), dict(obj=repr(x)))
                far = (Fraction(40), Fraction(-30), Fraction(20))
                x.move(V(*[O.to_number(c, "float") for c in far]))
                exacts[id(x)] = K.transform(exacts[id(x)], K.IDENTITY, far, 1)
                after = (_native_snapshot(cp), [getattr(cp, m)() for m in ("length", "area", "volume") if hasattr(cp, m)], g.volume(cp) if isinstance(cp, g.ConvexPolyhedron) else 0)
                if after[0] != before[0] or not all(close(p_, q_) for p_, q_ in zip(after[1], before[1])) or not close(after[2], before[2]):
                    fail(kname, "moving the original changed its deep copy (measures %r -> %r)" % (before[1:], after[1:]), dict(obj=repr(cp)))
            except Exception as e:
                fail(kname, "raised %r" % (e,), dict(obj=repr(x)))
        # polyhedron ownership: mutate the face polygons after construction
        for ph in K.polyhedra(rng, 1):
            faces = [O.to_lib(("Polygon", f), "float") for f in ph[1]]
            try:
                body = g.ConvexPolyhedron(tuple(faces))
            except Exception:
                continue
            snap = _native_snapshot(body)
            vol = body.volume()
            faces[0].move(V(5, 5, 5))
            ev += 1
            classes.add("ownership:ConvexPolyhedron")
            if _native_snapshot(body) != snap or abs(body.volume() - vol) > 1e-12:
                fail("ownership:ConvexPolyhedron", "moving a face polygon after construction changed the polyhedron", dict(kind="ConvexPolyhedron"))
        # builders leave their arguments unchanged
        c, nrm, v1, v2, v3 = P(1, 2, 3), V(2, 1, 2), V(2, 0, 0), V(0, 3, 0), V(1, 1, 4)
        args_before = [_native_snapshot(x) for x in (c, nrm, v1, v2, v3)]
        for name, mk in (("Parallelogram", lambda: g.Parallelogram(c, v1, v2)), ("Parallelepiped", lambda: g.Parallelepiped(c, v1, v2, v3)), ("Circle", lambda: g.Circle(c, nrm, 2, 6)),
                         ("Cylinder", lambda: g.Cylinder(c, 2, nrm, 6)), ("Cone", lambda: g.Cone(c, 2, nrm, 6)), ("Sphere", lambda: g.Sphere(c, 2, 6, 3))):
            if hnum > 1:
                break
            try:
                mk()
            except Exception as e:
                fail("builder:" + name, "builder raised %r" % (e,), dict(builder=name))
            ev += 1
            classes.add("builder:" + name)
            if [_native_snapshot(x) for x in (c, nrm, v1, v2, v3)] != args_before:
                fail("builder:" + name, "builder modified its arguments", dict(builder=name))
    g.set_eps()
    return dict(evaluations=ev, classes=sorted(classes), failures=failures, samples=samples)


def bounded_requery(seed, n_per):
    """designed intersecting pairs of every type combination: the caller moves the object it was handed, then an operand; the same question about
    unchanged / equal operands must keep its first answer (memoised results, cached helper objects and live parts handed out are hidden state)"""
    from g3dvc import oracle as O
    from g3dvc import catalogue as K
    from g3dvc import bounded as B
    g = load_repo()
    V = g.Vector
    acc = B.Acc()
    rng = K.make_rng(seed + 21)
    pairs = []
    FL = ("Point", "Line", "HalfLine", "Segment", "Plane")
    for ka in FL:
        for kb in FL:
            pairs += [(a, b, "%s-%s:%s" % (ka, kb, lab)) for a, b, lab in K.flat_pairs(ka, kb, rng, n_per)]
    for body in list(K.polygons(rng, 2)) + list(K.polyhedra(rng, 2)):
        for kind in FL:
            pairs += [(f, body, "%s-%s:%s" % (kind, body[0], lab)) for f, lab in K.flat_vs_convex(kind, body, rng, n_per)]
    pairs += [(a, b, "convex:" + lab) for a, b, lab in K.convex_pairs(rng, 6 * n_per)]
    for a, b, klass in pairs:
        exact = O.intersect(a, b)
        if exact is None or not B.admitted(a, b, exact):
            acc.skipped += 1
            continue
        for order in (0, 1):
            x, y = (a, b) if order == 0 else (b, a)
            try:
                A, Bb = O.to_lib(x, "float"), O.to_lib(y, "float")
                A0, B0 = copy.deepcopy(A), copy.deepcopy(Bb)
                if order == 1:
                    # the tolerance is part of the state a query must leave alone; at the default setting a reset to the default would go unseen
                    g.set_sig_figures(8)
                    try:
                        g.intersection(copy.deepcopy(A), copy.deepcopy(Bb))
                        cfg = (g.get_eps(), g.get_sig_figures())
                    finally:
                        g.set_eps()
                    if cfg[1] != 8 or abs(cfg[0] - 1e-8) > 1e-17:
                        acc.fail("config:" + klass, "intersection changed the tolerance: after set_sig_figures(8) and one query get_eps() = %r, get_sig_figures() = %r" % cfg, dict(a=B.ser(x), b=B.ser(y), first="config"))
                r1 = g.intersection(A, Bb)
            except Exception as e:
                g.set_eps()
                continue  # (raising is C01-C04's business)
            if r1 is None or not hasattr(r1, "move") or (mutable_ids(r1) & (mutable_ids(A) | mutable_ids(Bb))):
                continue  # a pass-through result is the operand itself: mutating it changes the question
            if not O.matches(r1, exact, 1e-7)[0]:
                continue  # (a wrong first answer is C01-C04's business)
            acc.case(klass)
            first = repr(r1)
            case = dict(a=B.ser(x), b=B.ser(y), first=first)
            r1.move(V(3, -1, 2))
            for lab, qa, qb in (("the same operands", A, Bb), ("equal operands copied before the first query", A0, B0)):
                kind, val = B._call(g.intersection, qa, qb)
                if kind == "exc" or not O.matches(val, exact, 1e-7)[0]:
                    acc.fail(klass, "the caller moved the result; asking again about %s gave %s, first answer %s" % (lab, repr(val)[:120], first[:120]), case)
            if hasattr(A, "move") and not isinstance(A, g.Point):
                A.move(V(4, -6, 5))
                kind, val = B._call(g.intersection, A0, B0)
                if kind == "exc" or not O.matches(val, exact, 1e-7)[0]:
                    acc.fail(klass, "the first operand was moved away in place; equal operands at the old position got %s, first answer %s" % (repr(val)[:120], first[:120]), case)
            if hasattr(Bb, "move") and not isinstance(Bb, g.Point):
                Bb.move(V(-2, 7, 1))
                kind, val = B._call(g.intersection, A0, B0)
                if kind == "exc" or not O.matches(val, exact, 1e-7)[0]:
                    acc.fail(klass, "the second operand was moved away in place; equal operands at the old position got %s, first answer %s" % (repr(val)[:120], first[:120]), case)
            acc.sample(dict(klass=klass, a=B.ser(x), b=B.ser(y)))
    return acc.result()


def replay_case(case):
    if "first" in (case or {}):
        r = bounded_requery(0, 2)
        return dict(fails=bool(r["failures"]), observed=[f["what"] for f in r["failures"][:2]])
    r = bounded_interleavings(0, 3, 60)
    return dict(fails=bool(r["failures"]), observed=r["failures"][:2])


def bounded(tier, seed):
    n, steps = (6, 60) if tier == "quick" else (60, 200)
    return [("interleavings with attribute snapshots", bounded_interleavings, (seed, n, steps), 3000),
            ("same question again after the caller moved the result / an operand", bounded_requery, (seed, 8 if tier == "quick" else 30), 3000)]
