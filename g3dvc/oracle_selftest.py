"""Self-test of the exact oracle and the catalogues (oracle against itself, no library).

    python3-vt /verif/g3dvc/oracle_selftest.py [seed]

Exit code 0 when every check passes; prints a summary.
"""
import os
import sys
import time
from fractions import Fraction as F
from itertools import islice

sys.path.insert(0, os.path.dirname(os.path.abspath(__file__)))
import oracle as O  # noqa: E402
import catalogue as C  # noqa: E402

COUNTS = {}
FAILS = []


def check(name, cond, detail=None):
    COUNTS[name] = COUNTS.get(name, 0) + 1
    if not cond:
        FAILS.append((name, detail))
        if len(FAILS) <= 20:
            print('FAIL %s: %r' % (name, detail))


# ---------------------------------------------------------------------------
# sample points
# ---------------------------------------------------------------------------

EPS = F(1, 1000)


def samples_of(obj, rng, near=()):
    """Exact points of obj: vertices / base points, inner points, and for every point v of
    ``near`` that lies in obj, points of obj close to v."""
    obj = O.exact(obj)
    kind = obj[0]
    out = []
    if kind == 'Point':
        return [obj[1]]
    if kind in ('Line', 'HalfLine', 'Segment'):
        p, d, lo, hi = O._param_form(obj)
        params = [F(0), F(1), F(1, 2), F(1, 3), F(7)]
        if kind == 'Line':
            params += [F(-1), F(-5, 2)]
        if kind == 'Segment':
            params = [s for s in params if s <= 1] + [1 - EPS, EPS]
        out = [O.add(p, O.scale(s, d)) for s in params]
        for v in near:
            if O.contains(obj, v):
                for s in (EPS, -EPS):
                    x = O.add(v, O.scale(s, d))
                    if O.contains(obj, x):
                        out.append(x)
        return out
    if kind == 'Plane':
        p, n = obj[1], obj[2]
        u = O.cross(n, (1, 0, 0))
        if O.is_zero(u):
            u = O.cross(n, (0, 1, 0))
        w = O.cross(n, u)
        bases = [p] + [v for v in near if O.contains(obj, v)]
        for b in bases:
            for s, t in ((0, 0), (EPS, 0), (0, -EPS), (-EPS, EPS), (3, -2)):
                out.append(O.add(b, O.add(O.scale(F(s), u), O.scale(F(t), w))))
        return out
    verts = O.vertices(obj)
    c = O.centroid(verts)
    out = list(verts) + [c]
    for _ in range(4):
        w = [F(rng.randint(0, 5)) for _ in verts]
        if sum(w) == 0:
            continue
        out.append(tuple(sum(wi * v[i] for wi, v in zip(w, verts)) / sum(w) for i in range(3)))
    for v in near:
        if O.contains(obj, v):
            for q in verts + [c]:
                out.append(O.add(v, O.scale(EPS, O.sub(q, v))))  # convexity: still in obj
    return out


def check_pair(a, b, rng, tag):
    """The extensional contract of intersect on one pair."""
    r = O.intersect(a, b)
    r2 = O.intersect(b, a)
    check('symmetric', O.same_set(r, r2), (tag, a, b))
    verts = O.vertices(r)
    for v in verts:
        check('vertex_in_both', O.contains(a, v) and O.contains(b, v), (tag, a, b, v))
    if r is not None:
        for x in samples_of(r, rng):
            check('result_sample_in_both', O.contains(a, x) and O.contains(b, x), (tag, a, b, x))
        check('result_inside_operands', O.contains_obj(a, r) and O.contains_obj(b, r), (tag, a, b))
    # points of an operand (also just outside the result): in the result iff in the other operand
    for this, other in ((a, b), (b, a)):
        for x in samples_of(this, rng, near=verts):
            in_r = r is not None and O.contains(r, x)
            check('operand_sample_iff', in_r == O.contains(other, x), (tag, this, other, x))
    # the generic method agrees with the case analysis wherever both apply
    if a[0] in O.FLAT_KINDS and b[0] in O.FLAT_KINDS and \
            not (a[0] in O.UNBOUNDED_KINDS and b[0] in O.UNBOUNDED_KINDS):
        check('generic_equals_direct', O.same_set(O.intersect_generic(a, b), r), (tag, a, b))
    return r


def check_contains_vs_hrep(obj, rng):
    rows = O.hrep(obj)
    pts = samples_of(obj, rng)
    pts += [O.add(x, (EPS, 0, 0)) for x in pts[:6]] + [O.add(x, (0, -EPS, EPS)) for x in pts[:6]]
    pts += [C.lattice_point(rng) for _ in range(3)]
    for x in pts:
        check('contains_equals_hrep', O.contains(obj, x) == O.satisfies(rows, x), (obj, x))


# ---------------------------------------------------------------------------
# hand-computed cases
# ---------------------------------------------------------------------------


def box(x0, y0, z0, x1, y1, z1):
    return O.convex_hull([(x, y, z) for x in (x0, x1) for y in (y0, y1) for z in (z0, z1)])


def hand_cases():
    P = lambda *c: tuple(F(x) for x in c)  # noqa: E731
    # two crossing segments
    r = O.intersect(('Segment', (0, 0, 0), (2, 2, 0)), ('Segment', (0, 2, 0), (2, 0, 0)))
    check('hand_crossing_segments', r == ('Point', P(1, 1, 0)), r)
    r = O.intersect(('Segment', (0, 0, 0), (2, 2, 2)), ('Segment', (0, 2, 0), (2, 0, 1)))
    check('hand_skew_segments', r is None, r)
    r = O.intersect(('Segment', (0, 0, 0), (4, 0, 0)), ('Segment', (6, 0, 0), (2, 0, 0)))
    check('hand_collinear_overlap', O.same_set(r, ('Segment', (2, 0, 0), (4, 0, 0))), r)
    r = O.intersect(('HalfLine', (0, 0, 0), (1, 0, 0)), ('HalfLine', (3, 0, 0), (-2, 0, 0)))
    check('hand_opposite_halflines', O.same_set(r, ('Segment', (0, 0, 0), (3, 0, 0))), r)
    r = O.intersect(('HalfLine', (0, 0, 0), (1, 0, 0)), ('HalfLine', (3, 0, 0), (5, 0, 0)))
    check('hand_nested_halflines', O.same_set(r, ('HalfLine', (3, 0, 0), (1, 0, 0))), r)
    r = O.intersect(('Plane', (0, 0, 1), (0, 0, 2)), ('Plane', (0, 3, 0), (0, 1, 0)))
    check('hand_plane_plane', O.same_set(r, ('Line', (5, 3, 1), (-1, 0, 0))), r)
    # segment touching a polygon vertex
    tri = ('Polygon', ((0, 0, 0), (4, 0, 0), (0, 4, 0)))
    r = O.intersect(('Segment', (4, 0, 0), (6, 1, 0)), tri)
    check('hand_segment_touches_vertex_coplanar', r == ('Point', P(4, 0, 0)), r)
    r = O.intersect(('Segment', (4, 0, -1), (4, 0, 1)), tri)
    check('hand_segment_through_vertex', r == ('Point', P(4, 0, 0)), r)
    r = O.intersect(('Segment', (-1, -1, 0), (5, 5, 0)), tri)
    check('hand_segment_across_triangle', O.same_set(r, ('Segment', (0, 0, 0), (2, 2, 0))), r)
    # cube and shifted cube
    cube = box(0, 0, 0, 2, 2, 2)
    r = O.intersect(cube, box(1, 1, F(1, 2), 3, 3, 3))
    check('hand_cube_shifted_cube', O.same_set(r, box(1, 1, F(1, 2), 2, 2, 2)), r)
    check('hand_cube_shifted_volume', r is not None and r[0] == 'Polyhedron' and O.volume(r) == F(3, 2), r)
    check('hand_cube_shifted_faces', r is not None and len(r[1]) == 6 and all(len(f) == 4 for f in r[1]), r)
    r = O.intersect(cube, box(2, 0, 0, 4, 2, 2))
    check('hand_cubes_share_face', O.same_set(r, ('Polygon', ((2, 0, 0), (2, 2, 0), (2, 2, 2), (2, 0, 2)))), r)
    r = O.intersect(cube, box(2, 2, 0, 4, 4, 2))
    check('hand_cubes_share_edge', O.same_set(r, ('Segment', (2, 2, 0), (2, 2, 2))), r)
    r = O.intersect(cube, box(2, 2, 2, 4, 4, 4))
    check('hand_cubes_share_vertex', r == ('Point', P(2, 2, 2)), r)
    r = O.intersect(cube, box(F(5, 2), 0, 0, 4, 2, 2))
    check('hand_cubes_disjoint', r is None, r)
    # plane cutting the cube diagonally: regular hexagon
    r = O.intersect(('Plane', (1, 1, 1), (1, 1, 1)), cube)
    hexagon = {P(2, 1, 0), P(2, 0, 1), P(1, 2, 0), P(0, 2, 1), P(1, 0, 2), P(0, 1, 2)}
    check('hand_cube_hexagon', r is not None and r[0] == 'Polygon' and set(r[1]) == hexagon and len(r[1]) == 6, r)
    check('hand_hexagon_area', r is not None and O.area2_polygon(r) == 108, r and O.area2_polygon(r))  # area 3*sqrt(3)
    for i in range(6):  # cyclic order: consecutive vertices at distance sqrt(2)
        check('hand_hexagon_cyclic', O.norm2(O.sub(r[1][i], r[1][(i + 1) % 6])) == 2, r)
    r = O.intersect(('Plane', (0, 0, 0), (1, 1, 1)), cube)
    check('hand_plane_touches_cube_vertex', r == ('Point', P(0, 0, 0)), r)
    r = O.intersect(('Plane', (2, 2, 0), (1, 1, 0)), cube)
    check('hand_plane_touches_cube_edge', O.same_set(r, ('Segment', (2, 2, 0), (2, 2, 2))), r)
    # line along a cube edge
    r = O.intersect(('Line', (0, 0, 5), (0, 0, -3)), cube)
    check('hand_line_along_edge', O.same_set(r, ('Segment', (0, 0, 0), (0, 0, 2))), r)
    r = O.intersect(('Line', (0, 0, 0), (1, 1, 1)), cube)
    check('hand_line_space_diagonal', O.same_set(r, ('Segment', (0, 0, 0), (2, 2, 2))), r)
    r = O.intersect(('HalfLine', (1, 1, 1), (0, 0, 1)), cube)
    check('hand_halfline_from_centre', O.same_set(r, ('Segment', (1, 1, 1), (1, 1, 2))), r)
    # measures
    check('hand_box_volume', O.volume(box(0, 0, 0, 2, 3, F(7, 2))) == 21)
    tet = O.convex_hull([(0, 0, 0), (1, 0, 0), (0, 1, 0), (0, 0, 1)])
    check('hand_tetra_volume', O.volume(tet) == F(1, 6))
    octa = O.convex_hull([(1, 0, 0), (-1, 0, 0), (0, 2, 0), (0, -2, 0), (0, 0, 3), (0, 0, -3)])
    check('hand_octa_volume', O.volume(octa) == 8 and len(octa[1]) == 8)
    check('hand_area2', O.area2_polygon(('Polygon', ((0, 0, 0), (3, 0, 0), (3, 2, 0), (0, 2, 0)))) == 144)
    check('hand_perimeter', abs(O.perimeter_float(tri) - (8 + 32 ** 0.5)) < 1e-12)
    check('hand_surface', abs(O.surface_area_float(cube) - 24) < 1e-12)
    check('hand_edge_sum', abs(O.edge_length_sum_float(cube) - 24) < 1e-12)
    check('hand_length2', O.length2(('Segment', (0, 0, 0), (1, 2, 2))) == 9)
    # distances and angles
    L1 = ('Line', (0, 0, 0), (1, 0, 0))
    check('hand_dist_pp', O.distance2(('Point', (1, 2, 2)), ('Point', (0, 0, 0))) == 9)
    check('hand_dist_pl', O.distance2(('Point', (5, 3, 4)), L1) == 25 and O.distance2(L1, ('Point', (5, 3, 4))) == 25)
    check('hand_dist_ll_skew', O.distance2(L1, ('Line', (0, 0, 3), (0, 1, 0))) == 9)
    check('hand_dist_ll_parallel', O.distance2(L1, ('Line', (7, 3, 4), (-2, 0, 0))) == 25)
    check('hand_dist_ll_crossing', O.distance2(L1, ('Line', (2, 1, 0), (0, 1, 0))) == 0)
    check('hand_dist_ppl', O.distance2(('Point', (1, 1, 1)), ('Plane', (0, 0, 0), (1, 1, 1))) == 3)
    check('hand_dist_lpl', O.distance2(L1, ('Plane', (0, 0, 2), (0, 0, 5))) == 4
          and O.distance2(('Plane', (0, 0, 2), (1, 0, 5)), L1) == 0)
    check('hand_cos2', O.cos2_angle((1, 0, 0), (1, 1, 0)) == (F(1, 2), 1)
          and O.cos2_angle((1, 0, 0), (-1, 1, 0)) == (F(1, 2), -1)
          and O.cos2_angle((1, 0, 0), (0, 1, 0)) == (0, 0))
    # containment of objects
    check('hand_contains_obj', O.contains_obj(cube, ('Segment', (0, 0, 0), (2, 2, 2)))
          and not O.contains_obj(cube, ('Segment', (0, 0, 0), (3, 2, 2)))
          and not O.contains_obj(('Segment', (0, 0, 0), (9, 0, 0)), ('HalfLine', (1, 0, 0), (1, 0, 0)))
          and O.contains_obj(L1, ('HalfLine', (1, 0, 0), (-1, 0, 0)))
          and O.contains_obj(('HalfLine', (0, 0, 0), (1, 0, 0)), ('HalfLine', (1, 0, 0), (2, 0, 0)))
          and not O.contains_obj(('HalfLine', (0, 0, 0), (1, 0, 0)), ('HalfLine', (1, 0, 0), (-2, 0, 0)))
          and O.contains_obj(('Plane', (0, 0, 0), (0, 0, 1)), tri)
          and O.contains_obj(cube, ('Polygon', ((2, 0, 0), (2, 2, 0), (2, 2, 2))))
          and not O.contains_obj(cube, ('Plane', (1, 1, 1), (0, 0, 1)))
          and O.contains_obj(('Plane', (1, 1, 1), (0, 0, 1)), ('Line', (0, 5, 1), (1, 1, 0))))
    # filters
    near = ('Point', (F(1), F(1, 10 ** 6), F(0)))
    check('margin_rejects_near', not O.margin_ok(near, L1))
    check('margin_accepts_exact', O.margin_ok(('Point', (1, 0, 0)), L1))
    check('margin_accepts_far', O.margin_ok(('Point', (1, 1, 0)), L1))
    check('margin_rejects_near_parallel', not O.margin_ok(L1, ('Line', (0, 1, 0), (10 ** 5, 1, 0))))
    check('margin_rejects_near_miss_edge',
          not O.margin_ok(('Line', (2 + F(1, 10 ** 5), 1, -1), (0, 0, 1)), ('Polygon', ((0, 0, 0), (2, 0, 0), (2, 2, 0), (0, 2, 0)))))
    check('margin_accepts_cubes', O.margin_ok(cube, box(1, 1, F(1, 2), 3, 3, 3)))
    check('hash_safe', O.hash_safe([0.25, 1 / 3, 2.0]) and not O.hash_safe([0.00000000005])
          and not O.hash_safe([1.23456789015]) and O.hash_safe([1.2345678902]))
    check('hash_quantities', len(O.hash_quantities(cube)) == 8 * 3 + 12 * 3 + 6 * 4 and O.hash_quantities(None) == [])
    # matches on float descriptions
    fl = ('Segment', (2.0, 2.0, 2.0 + 1e-9), (2.0, 2.0, 0.0))
    check('matches_segment', O.matches(fl, ('Segment', (2, 2, 0), (2, 2, 2)))[0])
    check('matches_segment_no', not O.matches(fl, ('Segment', (2, 2, 0), (2, 2, 1)))[0])
    check('matches_line', O.matches(('Line', (3.0, 0.0, 0.0), (-2.0, 0.0, 0.0)), L1)[0]
          and not O.matches(('Line', (3.0, 0.0, 1e-3), (-2.0, 0.0, 0.0)), L1)[0])
    check('matches_halfline', O.matches(('HalfLine', (0.0, 0.0, 0.0), (0.5, 0.0, 0.0)), ('HalfLine', (0, 0, 0), (1, 0, 0)))[0]
          and not O.matches(('HalfLine', (0.0, 0.0, 0.0), (-0.5, 0.0, 0.0)), ('HalfLine', (0, 0, 0), (1, 0, 0)))[0])
    check('matches_polygon', O.matches(('Polygon', ((0.0, 4.0, 0.0), (0.0, 0.0, 0.0), (4.0, 0.0, 0.0))), tri)[0]
          and not O.matches(('Polygon', ((0.0, 4.0, 0.0), (0.0, 0.0, 0.0), (4.0, 0.0, 0.0), (2.0, 2.0, 0.0))), tri)[0]
          and not O.matches(None, tri)[0] and O.matches(None, None)[0]
          and not O.matches(('Point', (0.0, 0.0, 0.0)), tri)[0])


# ---------------------------------------------------------------------------
# expected result kinds of designed labels (the determinate ones)
# ---------------------------------------------------------------------------

EXPECTED_KIND = {
    'skew': None, 'parallel_distinct': None, 'crossing_inside': 'Point', 'crossing_outside_a': None,
    'crossing_shared_end_point': 'Point', 'collinear_touching': 'Point', 'collinear_disjoint': None,
    'collinear_opposite_touching': 'Point', 'collinear_opposite_overlapping': 'Segment',
    'parallel_off': None, 'coincident': 'Plane', 'ending_on': 'Point', 'crossing_outside': None,
    'tangent_at_vertex': 'Point', 'tangent_at_edge_point': 'Point', 'along_edge_covering': 'Segment',
    'fully_outside': None, 'fully_inside': 'Segment', 'touching_vertex_only': 'Point',
    'touching_edge_only': 'Segment', 'containing_face': 'Polygon', 'coplanar': 'Polygon',
    'coplanar_tangent_at_vertex': 'Point', 'coplanar_outside': None, 'coplanar_along_edge_covering': 'Segment',
    'pp_coplanar_share_vertex': 'Point', 'pp_coplanar_share_edge': 'Segment', 'pp_parallel_planes': None,
    'pp_coplanar_nested': 'Polygon', 'pg_ph_touch_vertex': 'Point', 'pg_ph_touch_edge': 'Segment',
    'pg_ph_face_itself': 'Polygon', 'pg_ph_cut_large': 'Polygon', 'ph_ph_share_vertex': 'Point',
    'ph_ph_share_edge': 'Segment', 'ph_ph_share_face': 'Polygon', 'ph_ph_nested': 'Polyhedron',
    'ph_ph_translated_half': 'Polyhedron', 'ph_ph_disjoint': None, 'ph_ph_face_in_face': 'Polygon',
    'ph_ph_edges_cross_at_point': 'Point', 'ph_ph_equal': 'Polyhedron',
}


def check_label(label, r):
    if label in EXPECTED_KIND:
        check('label_kind', (r and r[0]) == EXPECTED_KIND[label], (label, r))


# ---------------------------------------------------------------------------
# main
# ---------------------------------------------------------------------------


def main(seed=20260101):
    t0 = time.time()
    rng = C.make_rng(seed)
    hand_cases()

    # determinism of the catalogue
    def digest(s):
        g = C.make_rng(s)
        return (list(C.flat_pairs('Segment', 'HalfLine', g, 25)), list(C.polygons(g, 5)),
                list(C.polyhedra(g, 5)), list(C.convex_pairs(g, 12)))
    check('deterministic', digest(7) == digest(7))
    check('seed_matters', digest(7) != digest(8))
    check('rotations', all(C.is_orthonormal(M) for M in C.ROTATIONS) and len(C.SYMMETRIES) == 48
          and len(set(C.ROTATIONS)) == len(C.ROTATIONS) and C.ROTATIONS[0] == C.IDENTITY)

    labels = set()
    # flat against flat: all 25 ordered pairs
    for ka in O.FLAT_KINDS:
        for kb in O.FLAT_KINDS:
            for a, b, label in C.flat_pairs(ka, kb, rng, 44):
                check('kinds', a[0] == ka and b[0] == kb)
                r = check_pair(a, b, rng, label)
                check_label(label, r)
                labels.add(label)
                # equivariance under a further exact motion
                R, t, k = C.random_pose(rng)
                r_moved = O.intersect(C.transform(a, R, t, k), C.transform(b, R, t, k))
                check('equivariant', O.same_set(r_moved, C.transform_result(r, R, t, k)), (label, a, b))
    # self-intersection, contains vs hrep for every kind
    polys = list(C.polygons(rng, 16))
    solids = list(C.polyhedra(rng, 22))
    flats = [x for k in O.FLAT_KINDS for x in islice(C.flat_objects(k, rng), 6)]
    for x in flats + polys + solids:
        check('self_intersection', O.same_set(O.intersect(x, x), O.canonical(x)), x)
        check_contains_vs_hrep(x, rng)
        check('canonical_idempotent', O.canonical(O.canonical(x)) == O.canonical(x), x)
    # volume of posed boxes and scaling
    for _ in range(10):
        a, b, c = rng.randint(1, 5), rng.randint(1, 5), F(rng.randint(1, 9), 2)
        R, t, k = C.random_pose(rng)
        moved = C.transform(box(0, 0, 0, a, b, c), R, t, k)
        check('box_volume_posed', O.volume(moved) == a * b * c * k ** 3, moved)
        check('box_faces', len(O.check_object(moved)[1]) == 6)
    # flat against convex
    for K in polys[:8] + solids[:11]:
        for kind in O.FLAT_KINDS:
            for f, label in C.flat_vs_convex(kind, K, rng, 26):
                r = check_pair(f, K, rng, label)
                check_label(label, r)
                labels.add(label)
                if r is not None and r[0] in ('Line', 'HalfLine', 'Plane'):
                    check('bounded_result', False, (label, f, K))
    # convex against convex
    n_solid = 0
    for a, b, label in C.convex_pairs(rng, 170):
        r = check_pair(a, b, rng, label)
        check_label(label, r)
        labels.add(label)
        if r is not None and r[0] == 'Polyhedron':
            n_solid += 1
            try:
                O.check_object(r)
                ok = True
            except ValueError as e:
                ok = str(e)
            check('result_polyhedron_well_formed', ok is True, (label, ok))
            check('volume_monotone', 0 < O.volume(r) <= min(
                O.volume(x) for x in (a, b) if x[0] == 'Polyhedron'), label)
        if r is not None and r[0] == 'Polygon':
            try:
                O.check_object(r)
                ok = True
            except ValueError as e:
                ok = str(e)
            check('result_polygon_well_formed', ok is True, (label, ok))
    check('some_solid_results', n_solid >= 10, n_solid)
    # speed of the largest case family
    big = [x for x in solids if len(O.vertices(x)) >= 8][:6]
    t1 = time.time()
    k = 0
    for a in big:
        for b in big:
            O.intersect(a, C.translated(b, O.sub(O.centroid(O.vertices(a)), O.centroid(O.vertices(b)))))
            k += 1
    per = (time.time() - t1) / max(k, 1)
    check('polyhedron_pair_under_50ms', per < 0.05, per)

    total = sum(COUNTS.values())
    print('oracle self-test: seed %d, %d checks in %d groups, %d designed labels, %.1f s'
          % (seed, total, len(COUNTS), len(labels), time.time() - t0))
    for name in sorted(COUNTS):
        bad = sum(1 for n, _ in FAILS if n == name)
        print('  %-34s %6d %s' % (name, COUNTS[name], 'ok' if not bad else 'FAILED %d' % bad))
    print('  mean intersect time for two 8-10 vertex polyhedra: %.1f ms' % (per * 1000))
    if FAILS:
        print('RESULT: FAIL (%d failed checks)' % len(FAILS))
        return 1
    print('RESULT: PASS')
    return 0


if __name__ == '__main__':
    sys.exit(main(int(sys.argv[1]) if len(sys.argv) > 1 else 20260101))
