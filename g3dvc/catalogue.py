"""Deterministic catalogues of exact objects for the bounded stand-in.

Depends only on oracle.py and the standard library.  Every generator takes a
``random.Random`` (use ``make_rng(seed)``); with the same seed the same sequence
is produced.  Objects are the exact tuples of oracle.py.

Designed configurations are built in a convenient frame from lattice data
(|x| <= 8, denominators 1, 2, 4) and then moved by a random orthonormal rational
map of ROTATIONS, a lattice translation and a scale, so that nothing is
axis-aligned.  The label names the *designed* configuration.
"""
from fractions import Fraction
from itertools import permutations, product
import random

try:
    from . import oracle as O
except ImportError:  # run as a script next to oracle.py
    import oracle as O

F = Fraction
add, sub, scale, dot, cross = O.add, O.sub, O.scale, O.dot, O.cross


def make_rng(seed):
    return random.Random(seed)


# ---------------------------------------------------------------------------
# orthonormal rational maps
# ---------------------------------------------------------------------------


def _mat(rows, den=1):
    return tuple(tuple(F(c, den) for c in r) for r in rows)


def mat_mul(A, B):
    return tuple(tuple(sum(A[i][k] * B[k][j] for k in range(3)) for j in range(3)) for i in range(3))


def mat_vec(A, v):
    return tuple(sum(A[i][k] * v[k] for k in range(3)) for i in range(3))


def mat_t(A):
    return tuple(tuple(A[j][i] for j in range(3)) for i in range(3))


def is_orthonormal(A):
    return mat_mul(A, mat_t(A)) == IDENTITY


def mat_det(A):
    return O.det3(A[0], A[1], A[2])


IDENTITY = _mat(((1, 0, 0), (0, 1, 0), (0, 0, 1)))


def _signed_permutations():
    out = []
    for perm in permutations(range(3)):
        for signs in product((1, -1), repeat=3):
            out.append(tuple(tuple(F(signs[i]) if j == perm[i] else F(0) for j in range(3))
                             for i in range(3)))
    return tuple(out)


#: the 48 signed axis permutations (24 proper, 24 improper), identity first
SYMMETRIES = tuple(sorted(_signed_permutations(), key=lambda m: m != IDENTITY))

#: oblique Pythagorean frames
FRAME_3 = _mat(((1, 2, 2), (2, 1, -2), (2, -2, 1)), 3)
FRAME_7 = _mat(((2, 3, 6), (3, -6, 2), (6, 2, -3)), 7)
FRAME_9 = _mat(((1, 4, 8), (4, 7, -4), (8, -4, 1)), 9)
FRAMES = (FRAME_3, FRAME_7, FRAME_9, mat_mul(FRAME_3, FRAME_7), mat_mul(FRAME_7, mat_t(FRAME_3)))


def _oblique():
    out, seen = [], set()
    for P in FRAMES:
        for S in SYMMETRIES:
            M = mat_mul(P, S)
            if M not in seen and all(c != 0 for r in M for c in r):
                seen.add(M)
                out.append(M)
    return tuple(out)


#: oblique orthonormal rational maps (no zero entry, proper and improper)
OBLIQUE = _oblique()
#: identity followed by the oblique maps
ROTATIONS = (IDENTITY,) + OBLIQUE

assert all(is_orthonormal(M) for M in ROTATIONS + SYMMETRIES)


# ---------------------------------------------------------------------------
# transforms
# ---------------------------------------------------------------------------


def transform(obj, R, t=(0, 0, 0), k=1):
    """The image of an exact object (or canonical result, or None) under x -> k R x + t
    (R orthonormal, k != 0)."""
    if obj is None:
        return None
    obj = O.exact(obj)
    t = O.vec(t)
    k = F(k)

    def pt(p):
        return add(scale(k, mat_vec(R, p)), t)

    def dr(d):
        return scale(k, mat_vec(R, d))

    kind = obj[0]
    if kind == 'Point':
        return ('Point', pt(obj[1]))
    if kind in ('Line', 'HalfLine'):
        return (kind, pt(obj[1]), dr(obj[2]))
    if kind == 'Segment':
        return ('Segment', pt(obj[1]), pt(obj[2]))
    if kind == 'Plane':
        return ('Plane', pt(obj[1]), mat_vec(R, obj[2]))
    if kind == 'Polygon':
        return ('Polygon', tuple(pt(v) for v in obj[1]))
    if kind == 'Polyhedron':
        return ('Polyhedron', tuple(tuple(pt(v) for v in f) for f in obj[1]))
    raise ValueError(kind)


def transform_result(r, R, t=(0, 0, 0), k=1):
    """transform() followed by oracle.canonical(): the image of a canonical result."""
    return O.canonical(transform(r, R, t, k))


def random_pose(rng, oblique=True):
    """(R, t, k): R from OBLIQUE (or SYMMETRIES when oblique is False), lattice translation,
    scale 1, 1/2 or 2."""
    R = rng.choice(OBLIQUE if oblique else SYMMETRIES)
    t = tuple(F(rng.randint(-6, 6)) for _ in range(3))
    k = rng.choice((F(1), F(1), F(1, 2), F(2)))
    return R, t, k


def _posed(rng, objs, axis_share=0.1):
    """Move all objs by one common random pose (axis-aligned pose with probability axis_share)."""
    R, t, k = random_pose(rng, oblique=rng.random() >= axis_share)
    return [transform(x, R, t, k) for x in objs]


# ---------------------------------------------------------------------------
# lattice data
# ---------------------------------------------------------------------------


def lattice_coord(rng, bound=8):
    den = rng.choice((1, 1, 2, 4))
    return F(rng.randint(-bound * den, bound * den), den)


def lattice_point(rng, bound=8):
    return tuple(lattice_coord(rng, bound) for _ in range(3))


def lattice_dir(rng, bound=4):
    while True:
        d = tuple(F(rng.randint(-bound, bound)) for _ in range(3))
        if not O.is_zero(d):
            return d


def _dir_not_parallel(rng, *others):
    while True:
        d = lattice_dir(rng)
        if all(not O.is_zero(cross(d, o)) for o in others):
            return d


def _dir_not_orthogonal(rng, n, *not_parallel):
    while True:
        d = lattice_dir(rng)
        if dot(d, n) != 0 and all(not O.is_zero(cross(d, o)) for o in not_parallel):
            return d


def _dir_orthogonal(rng, n, *not_parallel):
    """Lattice direction orthogonal to n, not parallel to the given vectors."""
    while True:
        d = cross(n, lattice_dir(rng))
        if not O.is_zero(d) and all(not O.is_zero(cross(d, o)) for o in not_parallel):
            return O._primitive(d)


def _param(rng, lo, hi, dens=(1, 2, 4)):
    """Random rational in [lo, hi] (lo, hi ints) with denominator 1, 2 or 4."""
    den = rng.choice(dens)
    return F(rng.randint(lo * den, hi * den), den)


def _pos(rng, lo=1, hi=4):
    """Random rational in [lo, hi], lo > 0."""
    return _param(rng, lo, hi)


def flat_objects(kind, rng, n=None):
    """Random flat objects of the kind with lattice coordinates |x| <= 8, denominators
    1, 2, 4 (n objects; endless when n is None)."""
    i = 0
    while n is None or i < n:
        i += 1
        p = lattice_point(rng)
        if kind == 'Point':
            yield ('Point', p)
        elif kind in ('Line', 'HalfLine'):
            yield (kind, p, lattice_dir(rng))
        elif kind == 'Plane':
            yield ('Plane', p, lattice_dir(rng))
        elif kind == 'Segment':
            q = lattice_point(rng)
            while q == p:
                q = lattice_point(rng)
            yield ('Segment', p, q)
        else:
            raise ValueError(kind)


# ---------------------------------------------------------------------------
# flat against flat: designed relative positions
# ---------------------------------------------------------------------------

LINEAR = ('Line', 'HalfLine', 'Segment')


def _linear(kind, p, d, lo, hi, flip=False):
    """The linear object of the kind on the carrier p + s d covering [lo, hi] (None = open
    side); flip reverses its own orientation where the kind has one."""
    if kind == 'Line':
        return ('Line', add(p, scale(F(lo or 0), d)), scale(-1, d) if flip else d)
    if kind == 'HalfLine':
        if lo is not None:
            return ('HalfLine', add(p, scale(lo, d)), d)
        return ('HalfLine', add(p, scale(hi, d)), scale(-1, d))
    a, b = add(p, scale(lo, d)), add(p, scale(hi, d))
    return ('Segment', b, a) if flip else ('Segment', a, b)


def _extent(kind, rng, inside, where='interior'):
    """Parameter interval (lo, hi) of a linear object of the kind placed relative to the
    carrier parameter ``inside``:
      'interior'  inside is strictly inside the extent
      'end'       inside is an end point / the origin
      'outside'   inside is on the carrier but outside the extent (not for Line)"""
    if kind == 'Line':
        return None, None
    if kind == 'HalfLine':
        if where == 'interior':
            return (inside - _pos(rng), None) if rng.random() < 0.5 else (None, inside + _pos(rng))
        if where == 'end':
            return (inside, None) if rng.random() < 0.5 else (None, inside)
        return (inside + _pos(rng), None) if rng.random() < 0.5 else (None, inside - _pos(rng))
    if where == 'interior':
        return inside - _pos(rng), inside + _pos(rng)
    if where == 'end':
        return (inside, inside + _pos(rng)) if rng.random() < 0.5 else (inside - _pos(rng), inside)
    lo = inside + _pos(rng)
    if rng.random() < 0.5:
        return lo, lo + _pos(rng)
    hi = inside - _pos(rng)
    return hi - _pos(rng), hi


def _collinear_b(kind_a, kind_b, rng, relation):
    """Intervals (lo_a, hi_a), (lo_b, hi_b) on one carrier in the given interval relation,
    or None when the relation does not exist for these kinds."""
    if kind_a == 'Line' or kind_b == 'Line':
        if relation != 'contained':
            return None
        ea = _extent(kind_a, rng, F(0))
        eb = _extent(kind_b, rng, _param(rng, -3, 3))
        return ea, eb
    if kind_a == 'Segment' and kind_b == 'Segment':
        a0 = _param(rng, -3, 0)
        a1 = a0 + _pos(rng, 2, 5)
        if relation == 'disjoint':
            b0 = a1 + _pos(rng)
            return (a0, a1), (b0, b0 + _pos(rng))
        if relation == 'touching':
            return (a0, a1), (a1, a1 + _pos(rng))
        if relation == 'overlapping':
            return (a0, a1), ((a0 + a1) / 2, a1 + _pos(rng))
        if relation == 'nested':
            q = (a1 - a0) / 4
            return (a0, a1), (a0 + q, a1 - q)
        if relation == 'nested_shared_end':
            return (a0, a1), (a0, (a0 + a1) / 2)
        if relation == 'containing':
            return (a0, a1), (a0 - _pos(rng), a1 + _pos(rng))
        if relation == 'equal':
            return (a0, a1), (a0, a1)
        return None
    if kind_a == 'HalfLine' and kind_b == 'HalfLine':
        a0 = _param(rng, -2, 2)
        table = {
            'same_dir_nested': ((a0, None), (a0 + _pos(rng), None)),
            'same_dir_containing': ((a0, None), (a0 - _pos(rng), None)),
            'equal': ((a0, None), (a0, None)),
            'opposite_overlapping': ((a0, None), (None, a0 + _pos(rng))),
            'opposite_touching': ((a0, None), (None, a0)),
            'opposite_disjoint': ((a0, None), (None, a0 - _pos(rng))),
        }
        return table.get(relation)
    # HalfLine with Segment (order fixed by the caller)
    h0 = _param(rng, -2, 2)
    g, l1, l2 = _pos(rng), _pos(rng), _pos(rng)
    table = {
        'disjoint': (h0 - g - l1, h0 - g),
        'touching': (h0 - l1, h0),
        'overlapping': (h0 - l1, h0 + l2),
        'nested': (h0 + g, h0 + g + l1),
        'nested_shared_end': (h0, h0 + l1),
    }
    if relation not in table:
        return None
    seg = table[relation]
    if kind_a == 'HalfLine':
        return (h0, None), seg
    return seg, (h0, None)


_COLLINEAR_RELATIONS = ('contained', 'disjoint', 'touching', 'overlapping', 'nested',
                        'nested_shared_end', 'containing', 'equal', 'same_dir_nested',
                        'same_dir_containing', 'opposite_overlapping',
                        'opposite_touching', 'opposite_disjoint')


def _designs_linear_linear(ka, kb, rng):
    """All designed (a, b, label) for two linear kinds, in the construction frame."""
    out = []
    p = lattice_point(rng, 4)
    d1 = lattice_dir(rng, 3)
    d2 = _dir_not_parallel(rng, d1)
    # carriers crossing at p (parameter 0 on both)
    for wa, wb, label in (('interior', 'interior', 'crossing_inside'),
                          ('outside', 'interior', 'crossing_outside_a'),
                          ('interior', 'outside', 'crossing_outside_b'),
                          ('outside', 'outside', 'crossing_outside_both'),
                          ('end', 'interior', 'crossing_at_end_of_a'),
                          ('interior', 'end', 'crossing_at_end_of_b'),
                          ('end', 'end', 'crossing_shared_end_point')):
        if (ka == 'Line' and wa != 'interior') or (kb == 'Line' and wb != 'interior'):
            continue
        la, ha = _extent(ka, rng, F(0), wa)
        lb, hb = _extent(kb, rng, F(0), wb)
        out.append((_linear(ka, p, d1, la, ha), _linear(kb, p, d2, lb, hb), label))
    # skew: shift b off the common plane
    n = cross(d1, d2)
    off = scale(_pos(rng) / 2, n)
    la, ha = _extent(ka, rng, F(0))
    lb, hb = _extent(kb, rng, F(0))
    out.append((_linear(ka, p, d1, la, ha), _linear(kb, add(p, off), d2, lb, hb), 'skew'))
    # parallel, distinct carriers (same and opposite orientation)
    side = _dir_not_parallel(rng, d1)
    for flip in (False, True):
        la, ha = _extent(ka, rng, F(0))
        lb, hb = _extent(kb, rng, F(0))
        d = scale(-2, d1) if flip else d1
        out.append((_linear(ka, p, d1, la, ha), _linear(kb, add(p, side), d, lb, hb),
                    'parallel_distinct' + ('_opposite' if flip else '')))
    # same carrier, every interval relation, both orientations of b
    for relation in _COLLINEAR_RELATIONS:
        for flip in (False, True):
            got = _collinear_b(ka, kb, rng, relation)
            if got is None:
                continue
            (la, ha), (lb, hb) = got
            a = _linear(ka, p, d1, la, ha)
            if kb == 'HalfLine':
                # orientation is fixed by the interval; use another multiple of d instead
                b = _linear(kb, p, d1, lb, hb)
                if flip:
                    b = ('HalfLine', b[1], scale(3, b[2]))
            else:
                b = _linear(kb, p, d1, lb, hb, flip)
            out.append((a, b, 'collinear_' + relation + ('_flipped' if flip else '')))
    return out


def _designs_point_other(kb, rng):
    out = []
    if kb == 'Point':
        p = lattice_point(rng)
        q = add(p, lattice_dir(rng))
        return [(('Point', p), ('Point', p), 'equal'), (('Point', p), ('Point', q), 'distinct'),
                (('Point', p), ('Point', add(p, (F(1, 4), 0, 0))), 'distinct_close')]
    if kb == 'Plane':
        q, n = lattice_point(rng, 4), lattice_dir(rng, 3)
        u = _dir_orthogonal(rng, n)
        on = add(q, scale(_param(rng, -3, 3), u))
        return [(('Point', on), ('Plane', q, n), 'on'),
                (('Point', q), ('Plane', q, n), 'at_base_point'),
                (('Point', add(on, scale(_pos(rng) / 4, n))), ('Plane', q, n), 'off')]
    p, d = lattice_point(rng, 4), lattice_dir(rng, 3)
    side = _dir_not_parallel(rng, d)
    lo, hi = _extent(kb, rng, F(0))
    b = _linear(kb, p, d, lo, hi)
    out.append((('Point', p), b, 'on_interior'))
    out.append((('Point', add(p, scale(F(1, 2), side))), b, 'off'))
    if kb != 'Line':
        lo, hi = _extent(kb, rng, F(0), 'end')
        out.append((('Point', p), _linear(kb, p, d, lo, hi), 'at_end_point'))
        lo, hi = _extent(kb, rng, F(0), 'outside')
        out.append((('Point', p), _linear(kb, p, d, lo, hi), 'on_carrier_outside'))
    return out


def _designs_linear_plane(ka, rng):
    out = []
    q, n = lattice_point(rng, 4), lattice_dir(rng, 3)
    plane = ('Plane', q, n)
    u = _dir_orthogonal(rng, n)
    x = add(q, scale(_param(rng, -2, 2), u))  # a point of the plane
    d = _dir_not_orthogonal(rng, n)
    for where, label in (('interior', 'crossing'), ('end', 'ending_on'), ('outside', 'crossing_outside')):
        if ka == 'Line' and where != 'interior':
            continue
        lo, hi = _extent(ka, rng, F(0), where)
        out.append((_linear(ka, x, d, lo, hi), plane, label))
    lo, hi = _extent(ka, rng, F(0))
    out.append((_linear(ka, x, n, lo, hi), plane, 'perpendicular_crossing'))
    lo, hi = _extent(ka, rng, F(0))
    out.append((_linear(ka, x, u, lo, hi), plane, 'lying_in'))
    lo, hi = _extent(ka, rng, F(0))
    out.append((_linear(ka, add(x, scale(_pos(rng) / 4, n)), u, lo, hi), plane, 'parallel_off'))
    return out


def _designs_plane_plane(rng):
    q, n = lattice_point(rng, 4), lattice_dir(rng, 3)
    a = ('Plane', q, n)
    u = _dir_orthogonal(rng, n)
    other = add(q, scale(_param(rng, 1, 3), u))
    return [
        (a, ('Plane', lattice_point(rng, 4), _dir_not_parallel(rng, n)), 'crossing'),
        (a, ('Plane', other, u), 'perpendicular'),
        (a, ('Plane', other, scale(2, n)), 'coincident'),
        (a, ('Plane', other, scale(-1, n)), 'coincident_opposite_normal'),
        (a, ('Plane', add(other, scale(_pos(rng) / 4, n)), n), 'parallel_distinct'),
        (a, ('Plane', add(other, scale(_pos(rng) / 4, n)), scale(-3, n)), 'parallel_distinct_opposite_normal'),
    ]


def flat_designs(kind_a, kind_b, rng):
    """One round of all designed configurations for the ordered pair of flat kinds, in the
    construction frame (not yet posed): list of (a, b, label)."""
    order = {'Point': 0, 'Line': 1, 'HalfLine': 1, 'Segment': 1, 'Plane': 2}
    swap = False
    ka, kb = kind_a, kind_b
    if order[ka] > order[kb]:
        ka, kb, swap = kb, ka, True
    if ka == 'Point':
        items = _designs_point_other(kb, rng)
    elif ka in LINEAR and kb in LINEAR:
        # HalfLine/Segment designs are written with the given order; no swap needed
        items = _designs_linear_linear(kind_a, kind_b, rng)
        swap = False
    elif ka in LINEAR:
        items = _designs_linear_plane(ka, rng)
    else:
        items = _designs_plane_plane(rng)
    if swap:
        items = [(b, a, label) for a, b, label in items]
    return items


def flat_pairs(kind_a, kind_b, rng, n, axis_share=0.1):
    """n items (a, b, label): a of kind_a, b of kind_b in designed relative positions (the
    label), every design in turn with fresh random data, each pair moved by a common random
    pose (oblique; axis-aligned with probability axis_share)."""
    count = 0
    while count < n:
        for a, b, label in flat_designs(kind_a, kind_b, rng):
            if count >= n:
                return
            a, b = _posed(rng, (a, b), axis_share)
            O.check_object(a)
            O.check_object(b)
            yield a, b, label
            count += 1


# ---------------------------------------------------------------------------
# convex polygons and polyhedra
# ---------------------------------------------------------------------------

#: convex lattice polygons in the z = 0 plane (x, y), counter-clockwise
POLYGON_TEMPLATES = (
    ('triangle_right', ((0, 0), (4, 0), (0, 3))),
    ('triangle_acute', ((0, 0), (5, 1), (2, 4))),
    ('triangle_obtuse', ((0, 0), (6, 0), (-2, 2))),
    ('square', ((0, 0), (3, 0), (3, 3), (0, 3))),
    ('rectangle', ((0, 0), (5, 0), (5, 2), (0, 2))),
    ('parallelogram', ((0, 0), (4, 1), (6, 4), (2, 3))),
    ('trapezoid', ((0, 0), (6, 0), (4, 3), (1, 3))),
    ('kite', ((0, 0), (2, -1), (6, 0), (2, 1))),
    ('pentagon', ((0, 0), (4, 0), (5, 3), (2, 5), (-1, 3))),
    ('pentagon_house', ((0, 0), (4, 0), (4, 3), (2, 5), (0, 3))),
    ('hexagon', ((1, 0), (3, 0), (4, 2), (3, 4), (1, 4), (0, 2))),
    ('hexagon_skew', ((0, 0), (3, -1), (6, 1), (7, 4), (4, 5), (1, 3))),
    ('heptagon', ((1, 0), (4, 0), (6, 2), (6, 4), (4, 6), (1, 5), (0, 2))),
    ('octagon', ((1, 0), (3, 0), (4, 1), (4, 3), (3, 4), (1, 4), (0, 3), (0, 1))),
    ('octagon_stretched', ((2, 0), (5, 0), (7, 1), (8, 3), (6, 5), (3, 5), (1, 4), (0, 2))),
)


def hull_2d(points):
    """Strictly convex hull (counter-clockwise) of 2-D rational points, Andrew's chain."""
    pts = sorted(set((F(x), F(y)) for x, y in points))

    def turn(o, a, b):
        return (a[0] - o[0]) * (b[1] - o[1]) - (a[1] - o[1]) * (b[0] - o[0])

    lower, upper = [], []
    for q in pts:
        while len(lower) >= 2 and turn(lower[-2], lower[-1], q) <= 0:
            lower.pop()
        lower.append(q)
    for q in reversed(pts):
        while len(upper) >= 2 and turn(upper[-2], upper[-1], q) <= 0:
            upper.pop()
        upper.append(q)
    return lower[:-1] + upper[:-1]


def _random_polygon_2d(rng):
    while True:
        k = rng.randint(3, 9)
        pts = [(rng.randint(-4, 4), rng.randint(-4, 4)) for _ in range(k)]
        hull = hull_2d(pts)
        if 3 <= len(hull) <= 8:
            return hull


def polygon_2d(rng):
    """(name, vertices) of a convex lattice polygon in 2-D: a template (possibly
    half-lattice: scaled by 1/2) or the hull of random lattice points."""
    if rng.random() < 0.7:
        name, pts = rng.choice(POLYGON_TEMPLATES)
        pts = [(F(x), F(y)) for x, y in pts]
    else:
        pts = _random_polygon_2d(rng)
        name = 'hull%d' % len(pts)
    if rng.random() < 0.2:
        pts = [(x / 2, y / 2) for x, y in pts]
    if rng.random() < 0.5:
        pts = list(reversed(pts))  # either orientation
    s = rng.randrange(len(pts))
    return name, pts[s:] + pts[:s]


def _lift(pts2):
    return ('Polygon', tuple((F(x), F(y), F(0)) for x, y in pts2))


def polygons(rng, n=40, axis_share=0.1):
    """n convex polygons ('Polygon', verts), 3-8 vertices in cyclic order (either
    orientation, arbitrary start), in oblique poses."""
    for _ in range(n):
        _, pts = polygon_2d(rng)
        (poly,) = _posed(rng, (_lift(pts),), axis_share)
        O.check_object(poly)
        yield poly


def _prism(pts2, h, shear=(0, 0)):
    bottom = [(F(x), F(y), F(0)) for x, y in pts2]
    top = [(F(x) + shear[0], F(y) + shear[1], F(h)) for x, y in pts2]
    return bottom + top


POLYHEDRON_BUILDERS = ('tetrahedron', 'tetrahedron_corner', 'box', 'cube', 'parallelepiped',
                       'triangular_prism', 'pentagonal_prism', 'square_pyramid',
                       'oblique_pyramid', 'octahedron', 'hull')


def polyhedron_points(name, rng):
    """Lattice vertex set of the named solid in the construction frame."""
    r = rng.randint
    if name == 'tetrahedron':
        a = r(1, 3)
        return [(0, 0, 0), (2 * a, 2 * a, 0), (2 * a, 0, 2 * a), (0, 2 * a, 2 * a)]
    if name == 'tetrahedron_corner':
        return [(0, 0, 0), (r(2, 5), 0, 0), (0, r(2, 5), 0), (0, 0, r(2, 5))]
    if name == 'cube':
        a = r(1, 4)
        return [(x, y, z) for x in (0, a) for y in (0, a) for z in (0, a)]
    if name == 'box':
        a, b, c = r(1, 5), r(1, 5), r(1, 5)
        return [(x, y, z) for x in (0, a) for y in (0, b) for z in (0, c)]
    if name == 'parallelepiped':
        while True:
            u, v, w = [(r(-1, 4), r(-1, 4), r(-1, 4)) for _ in range(3)]
            if O.det3(u, v, w) != 0:
                break
        return [add(add(scale(i, u), scale(j, v)), scale(k, w))
                for i in (0, 1) for j in (0, 1) for k in (0, 1)]
    if name == 'triangular_prism':
        return _prism(((0, 0), (r(2, 5), 0), (r(0, 2), r(2, 4))), r(1, 4), (r(0, 1), 0))
    if name == 'pentagonal_prism':
        return _prism(dict(POLYGON_TEMPLATES)['pentagon'], r(1, 4))
    if name == 'square_pyramid':
        a = r(1, 3)
        return [(-a, -a, 0), (a, -a, 0), (a, a, 0), (-a, a, 0), (0, 0, r(1, 5))]
    if name == 'oblique_pyramid':
        return [(0, 0, 0), (4, 0, 0), (5, 3, 0), (1, 3, 0), (r(-1, 5), r(-1, 4), r(2, 5))]
    if name == 'octahedron':
        a, b, c = r(1, 4), r(1, 4), r(1, 4)
        return [(a, 0, 0), (-a, 0, 0), (0, b, 0), (0, -b, 0), (0, 0, c), (0, 0, -c)]
    if name == 'hull':
        while True:
            pts = [(r(-3, 3), r(-3, 3), r(-3, 3)) for _ in range(r(4, 8))]
            if O.affine_rank([O.vec(p) for p in set(pts)]) == 3:
                return pts
    raise ValueError(name)


def polyhedron_frame(rng, name=None):
    """(name, ('Polyhedron', faces)) in the construction frame (exact brute-force hull)."""
    name = name or rng.choice(POLYHEDRON_BUILDERS)
    body = O.convex_hull(polyhedron_points(name, rng))
    if rng.random() < 0.2:
        body = transform(body, IDENTITY, (0, 0, 0), F(1, 2))
    return name, body


def polyhedra(rng, n=40, axis_share=0.1):
    """n closed convex polyhedra ('Polyhedron', faces) in oblique poses: tetrahedra, boxes,
    parallelepipeds, prisms, pyramids, octahedra and hulls of 4-8 lattice points (at most
    8 vertices / 12 faces ... the pentagonal prism has 10 vertices, 7 faces)."""
    for i in range(n):
        _, body = polyhedron_frame(rng, POLYHEDRON_BUILDERS[i % len(POLYHEDRON_BUILDERS)])
        (body,) = _posed(rng, (body,), axis_share)
        O.check_object(body)
        yield body


# ---------------------------------------------------------------------------
# flat against convex: designed positions relative to a given polygon / polyhedron
# ---------------------------------------------------------------------------


class _Geo(object):
    """Exact features of a polygon or polyhedron K used to design positions."""

    def __init__(self, K):
        K = O.exact(K)
        self.K = K
        self.solid = K[0] == 'Polyhedron'
        self.verts = O.vertices(K)
        self.center = O.centroid(self.verts)
        if self.solid:
            self.faces = list(K[1])
            self.edges = O.polyhedron_edges(K[1])
            self.normals = [O._primitive(O.outward_normal(f, self.center)) for f in self.faces]
        else:
            self.faces = [K[1]]
            self.edges = O.polygon_edges(K[1])
            self.normals = [O._primitive(O.polygon_normal(K[1]))]

    def inner(self, rng, pts=None):
        """A point of the relative interior of the hull of pts (default: of K)."""
        pts = pts or self.verts
        w = [F(rng.randint(1, 4)) for _ in pts]
        tot = sum(w)
        return tuple(sum(wi * p[i] for wi, p in zip(w, pts)) / tot for i in range(3))

    def faces_at(self, v):
        return [i for i, f in enumerate(self.faces) if v in f]

    def faces_of_edge(self, e):
        return [i for i, f in enumerate(self.faces) if e[0] in f and e[1] in f]

    def support_normal_at_vertex(self, v):
        """Normal m of a plane through vertex v touching K only at v (m.(x-v) < 0 on K\\{v})."""
        if self.solid:
            m = (F(0), F(0), F(0))
            for i in self.faces_at(v):
                m = add(m, self.normals[i])
            return m
        n = self.normals[0]
        m = (F(0), F(0), F(0))
        verts = self.K[1]
        k = len(verts)
        i = verts.index(v)
        for a, b in ((verts[i - 1], v), (v, verts[(i + 1) % k])):
            m = add(m, O._primitive(cross(sub(b, a), O.polygon_normal(verts))))
        return m

    def support_normal_at_edge(self, e):
        """Normal of a plane containing edge e and touching K only along e."""
        if self.solid:
            i, j = self.faces_of_edge(e)
            return add(self.normals[i], self.normals[j])
        a, b = e
        verts = self.K[1]
        if verts[(verts.index(a) + 1) % len(verts)] != b:
            a, b = b, a
        return O._primitive(cross(sub(b, a), O.polygon_normal(verts)))


def _generic_dir(rng, geo, extra=()):
    """Lattice direction parallel to no edge, orthogonal to no face normal (of geo and of
    the extra normals): crosses every face plane."""
    while True:
        d = lattice_dir(rng)
        if all(dot(d, n) != 0 for n in list(geo.normals) + list(extra)) and \
                all(not O.is_zero(cross(d, sub(b, a))) for a, b in geo.edges):
            return d


def _in_plane_dir(rng, n, avoid=()):
    """Direction orthogonal to n and parallel to none of the avoid vectors."""
    return _dir_orthogonal(rng, n, *avoid)


def _sup1(d):
    """The positive multiple of d with sup-norm 1 (keeps designed extents moderate)."""
    return scale(1 / max(abs(c) for c in d), d)


def _mk_linear(kind, A, B, mode):
    """Linear object of the kind from two carrier points A != B.
    mode 'AB': Segment A-B, HalfLine from A towards B; 'BA' the reverse."""
    if mode == 'BA':
        A, B = B, A
    if kind == 'Line':
        return ('Line', A, sub(B, A))
    if kind == 'HalfLine':
        return ('HalfLine', A, sub(B, A))
    return ('Segment', A, B)


def _far(rng):
    return F(rng.randint(12, 20))


def _linear_designs(kind, geo, rng):
    """List of (object, label) of a linear kind relative to geo.K."""
    out = []
    c = geo.center
    edge_dirs = [sub(b, a) for a, b in geo.edges]

    def put(A, B, label, kinds=LINEAR, mode=None):
        if kind in kinds:
            out.append((_mk_linear(kind, A, B, mode or rng.choice(('AB', 'BA'))), label))

    P = geo.inner(rng)
    d = _sup1(_generic_dir(rng, geo))
    big = _far(rng)
    # transversal through an interior point
    put(add(P, scale(-big, d)), add(P, scale(big, d)),
        'crossing_two_faces' if geo.solid else 'generic_crossing')
    put(add(P, scale(big, d)), add(P, scale(2 * big, d)), 'carrier_crossing_extent_missing',
        ('HalfLine', 'Segment'), 'AB')
    put(P, add(P, scale(big, d)), 'starting_inside' if geo.solid else 'end_point_on_interior',
        ('HalfLine', 'Segment'), 'AB')
    if geo.solid:
        Q = geo.inner(rng)
        if Q != P:
            put(P, Q, 'fully_inside', ('Segment',))
            put(P, Q, 'starting_inside_towards_inner_point', ('HalfLine',), 'AB')
    # through a vertex / an edge point, transversal
    v = rng.choice(geo.verts)
    e = rng.choice(geo.edges)
    E = geo.inner(rng, list(e))
    if geo.solid:
        put(add(v, scale(-2, sub(P, v))), add(v, scale(3, sub(P, v))), 'through_vertex_and_interior')
        put(add(E, scale(-2, sub(P, E))), add(E, scale(3, sub(P, E))), 'through_edge_and_interior')
        put(v, add(v, scale(3, sub(P, v))), 'end_point_on_vertex_going_in', ('HalfLine', 'Segment'), 'AB')
        put(v, add(v, scale(-3, sub(P, v))), 'end_point_on_vertex_going_out', ('HalfLine', 'Segment'), 'AB')
        put(E, add(E, scale(-2, sub(P, E))), 'end_point_on_edge_going_out', ('HalfLine', 'Segment'), 'AB')
        # face interior point
        fi = rng.randrange(len(geo.faces))
        Fp = geo.inner(rng, list(geo.faces[fi]))
        n = geo.normals[fi]
        dd = _sup1(_dir_not_orthogonal(rng, n))
        if dot(dd, n) < 0:
            dd = scale(-1, dd)
        put(Fp, add(Fp, scale(big, dd)), 'end_point_on_face_going_out', ('HalfLine', 'Segment'), 'AB')
        put(add(Fp, scale(big, dd)), Fp, 'end_point_on_face_from_outside', ('Segment',), 'AB')
        put(Fp, P, 'from_face_point_to_inner_point', ('Segment',), 'AB')
        # tangent at a vertex only / at an edge point only
        m = geo.support_normal_at_vertex(v)
        t = _sup1(_in_plane_dir(rng, m))
        put(add(v, scale(-big, t)), add(v, scale(big, t)), 'tangent_at_vertex')
        m = geo.support_normal_at_edge(e)
        t = _sup1(cross(m, sub(e[1], e[0])))
        put(add(E, scale(-big, t)), add(E, scale(big, t)), 'tangent_at_edge_point')
        # along an edge
        ed = sub(e[1], e[0])
        put(add(e[0], scale(-2, ed)), add(e[0], scale(3, ed)), 'along_edge_covering')
        put(E, add(e[0], scale(3, ed)), 'along_edge_from_edge_point', ('HalfLine', 'Segment'), 'AB')
        put(e[0], e[1], 'edge_itself', ('Segment',))
        # in a face plane
        face = list(geo.faces[fi])
        t = _sup1(_in_plane_dir(rng, n, [sub(b, a) for a, b in O.polygon_edges(face)]))
        put(add(Fp, scale(-big, t)), add(Fp, scale(big, t)), 'in_face_plane_through_face')
        put(Fp, add(Fp, scale(big, t)), 'in_face_plane_starting_in_face', ('HalfLine', 'Segment'), 'AB')
        fv = rng.choice(face)
        outp = add(fv, scale(2, sub(fv, O.centroid(face))))
        put(add(outp, scale(-big, t)), add(outp, scale(big, t)), 'in_face_plane_carrier_near_face')
        fg = _Geo(('Polygon', tuple(face)))
        mt = _sup1(cross(fg.support_normal_at_vertex(fv), O.polygon_normal(face)))
        put(add(fv, scale(-big, mt)), add(fv, scale(big, mt)), 'in_face_plane_tangent_at_vertex')
        # outside
        put(add(Fp, scale(2, _sup1(n))), add(add(Fp, scale(2, _sup1(n))), scale(big, t)), 'outside_parallel_to_face')
        far = add(c, scale(big, d))
        put(far, add(far, scale(3, _dir_not_parallel(rng, d))), 'fully_outside')
        return out
    # ---- polygon ----
    n = geo.normals[0]
    put(add(v, scale(-big, d)), add(v, scale(big, d)), 'transversal_through_vertex')
    put(add(E, scale(-big, d)), add(E, scale(big, d)), 'transversal_through_edge_point')
    put(v, add(v, scale(big, d)), 'end_point_on_vertex_transversal', ('HalfLine', 'Segment'), 'AB')
    outp = add(v, scale(2, sub(v, c)))  # coplanar, outside
    put(add(outp, scale(-big, d)), add(outp, scale(big, d)), 'crossing_plane_outside_polygon')
    up = add(P, scale(F(1, 2), _sup1(n)))
    t = _sup1(_in_plane_dir(rng, n, edge_dirs))
    put(add(up, scale(-big, t)), add(up, scale(big, t)), 'parallel_off_plane')
    # coplanar
    put(add(P, scale(-big, t)), add(P, scale(big, t)), 'coplanar_through_interior')
    put(add(v, scale(-2, sub(P, v))), add(v, scale(big, sub(P, v))), 'coplanar_through_vertex_and_interior')
    if len(geo.verts) >= 4:
        verts = geo.K[1]
        i = rng.randrange(len(verts))
        a, b = verts[i], verts[(i + 2) % len(verts)]
        put(add(a, scale(-2, sub(b, a))), add(a, scale(3, sub(b, a))), 'coplanar_through_two_vertices')
        put(a, b, 'coplanar_diagonal_itself', ('Segment',))
    mt = _sup1(cross(geo.support_normal_at_vertex(v), n))
    put(add(v, scale(-big, mt)), add(v, scale(big, mt)), 'coplanar_tangent_at_vertex')
    put(v, add(v, scale(big, mt)), 'coplanar_tangent_starting_at_vertex', ('HalfLine', 'Segment'), 'AB')
    ed = sub(e[1], e[0])
    put(add(e[0], scale(-2, ed)), add(e[0], scale(3, ed)), 'coplanar_along_edge_covering')
    put(E, add(e[0], scale(3, ed)), 'coplanar_along_edge_from_edge_point', ('HalfLine', 'Segment'), 'AB')
    put(e[0], e[1], 'coplanar_edge_itself', ('Segment',))
    put(add(e[1], scale(1, ed)), add(e[1], scale(3, ed)), 'coplanar_on_edge_carrier_outside',
        ('HalfLine', 'Segment'), 'AB')
    put(add(outp, scale(-big, mt)), add(outp, scale(big, mt)), 'coplanar_outside')
    Q = geo.inner(rng)
    if Q != P:
        put(P, Q, 'coplanar_fully_inside', ('Segment',))
        put(P, Q, 'coplanar_starting_inside', ('HalfLine',), 'AB')
    put(P, add(P, scale(big, t)), 'coplanar_starting_inside_leaving', ('HalfLine', 'Segment'), 'AB')
    put(add(E, scale(2, sub(E, P))), E, 'coplanar_end_point_on_boundary_from_outside', ('Segment',), 'AB')
    put(P, E, 'coplanar_end_point_on_boundary_from_inside', ('Segment',), 'AB')
    put(E, add(E, scale(2, sub(E, P))), 'coplanar_starting_on_boundary_going_out', ('HalfLine',), 'AB')
    return out


def _point_designs(geo, rng):
    out = []
    c = geo.center
    v = rng.choice(geo.verts)
    e = rng.choice(geo.edges)
    out.append((('Point', geo.inner(rng)), 'inside'))
    out.append((('Point', v), 'on_vertex'))
    out.append((('Point', geo.inner(rng, list(e))), 'on_edge'))
    fi = rng.randrange(len(geo.faces))
    n = geo.normals[fi]
    Fp = geo.inner(rng, list(geo.faces[fi]))
    if geo.solid:
        out.append((('Point', Fp), 'on_face'))
        out.append((('Point', add(Fp, scale(F(1, 4), _sup1(n)))), 'just_outside_face'))
        face = geo.faces[fi]
        fv = rng.choice(face)
        out.append((('Point', add(fv, scale(2, sub(fv, O.centroid(face))))), 'in_face_plane_outside'))
    else:
        out.append((('Point', add(Fp, scale(F(1, 4), _sup1(n)))), 'off_plane_above_interior'))
        out.append((('Point', add(v, scale(2, sub(v, c)))), 'coplanar_outside'))
        E = geo.inner(rng, list(e))
        out.append((('Point', add(E, scale(F(1, 2), sub(E, c)))), 'coplanar_outside_near_edge'))
    out.append((('Point', add(c, scale(_far(rng), lattice_dir(rng)))), 'far_outside'))
    return out


def _plane_designs(geo, rng):
    out = []
    P = geo.inner(rng)
    v = rng.choice(geo.verts)
    e = rng.choice(geo.edges)
    ed = sub(e[1], e[0])
    edge_dirs = [sub(b, a) for a, b in geo.edges]

    def generic_normal(*also_not_parallel):
        while True:
            m = lattice_dir(rng)
            if all(not O.is_zero(cross(m, n)) for n in list(geo.normals) + list(also_not_parallel)) \
                    and all(dot(m, d) != 0 for d in edge_dirs):
                return m

    m = generic_normal()
    out.append((('Plane', P, m), 'cutting_generic'))
    out.append((('Plane', add(geo.center, scale(_far(rng), m)), m), 'outside_generic'))
    out.append((('Plane', v, geo.support_normal_at_vertex(v)), 'touching_vertex_only'))
    out.append((('Plane', v, scale(-1, geo.support_normal_at_vertex(v))), 'touching_vertex_only_normal_towards_body'))
    # through a vertex and an interior point
    w = sub(P, v)
    out.append((('Plane', v, O._primitive(cross(w, _dir_not_parallel(rng, w)))), 'through_vertex_cutting'))
    fi = rng.randrange(len(geo.faces))
    n = geo.normals[fi]
    if geo.solid:
        out.append((('Plane', e[0], geo.support_normal_at_edge(e)), 'touching_edge_only'))
        out.append((('Plane', e[1], scale(-2, geo.support_normal_at_edge(e))), 'touching_edge_only_normal_towards_body'))
        out.append((('Plane', e[0], cross(ed, sub(P, e[0]))), 'containing_edge_cutting'))
        out.append((('Plane', geo.faces[fi][0], scale(rng.choice((1, -1, 2)), n)), 'containing_face'))
        out.append((('Plane', P, n), 'parallel_to_face_cutting'))
        out.append((('Plane', add(geo.faces[fi][0], scale(F(1, 2), _sup1(n))), n), 'parallel_to_face_outside'))
    else:
        out.append((('Plane', v, scale(rng.choice((1, -1, 3)), n)), 'coplanar'))
        out.append((('Plane', add(P, scale(F(1, 2), _sup1(n))), n), 'parallel_off'))
        mm = geo.support_normal_at_edge(e)
        out.append((('Plane', e[0], add(mm, scale(rng.choice((0, 1, -2)), n))), 'containing_edge_only'))
        out.append((('Plane', P, O._primitive(cross(n, _in_plane_dir(rng, n, edge_dirs)))), 'perpendicular_cutting'))
        far = add(v, scale(3, sub(v, geo.center)))
        out.append((('Plane', far, add(geo.support_normal_at_vertex(v), n)), 'crossing_plane_missing_polygon'))
        if len(geo.verts) >= 4:
            verts = geo.K[1]
            i = rng.randrange(len(verts))
            a, b = verts[i], verts[(i + 2) % len(verts)]
            # normal orthogonal to the diagonal, not parallel to n
            m = add(cross(sub(b, a), n), scale(rng.choice((0, 1, -2)), n))
            out.append((('Plane', a, m), 'through_two_vertices'))
    return out


def convex_designs(kind, K, rng):
    """One round of (f, label): f of the flat kind in every designed position relative to K."""
    geo = _Geo(K)
    if kind == 'Point':
        return _point_designs(geo, rng)
    if kind == 'Plane':
        return _plane_designs(geo, rng)
    return _linear_designs(kind, geo, rng)


def flat_vs_convex(kind, K, rng, n):
    """n items (f, label): f of the flat kind in generic and in every degenerate position
    relative to the polygon / polyhedron K (labels: see _point_designs, _linear_designs,
    _plane_designs)."""
    count = 0
    while count < n:
        for f, label in convex_designs(kind, K, rng):
            if count >= n:
                return
            O.check_object(f)
            yield f, label
            count += 1


# ---------------------------------------------------------------------------
# convex against convex
# ---------------------------------------------------------------------------


def mirror_in_plane(obj, q, n):
    """Mirror image of a polygon / polyhedron in the plane through q with normal n."""
    nn = O.norm2(n)

    def m(x):
        return sub(x, scale(2 * dot(sub(x, q), n) / nn, n))

    return _map_points(obj, m)


def half_turn_about_line(obj, q, d):
    """Image under the rotation by 180 degrees about the line q + s d."""
    dd = O.norm2(d)

    def m(x):
        foot = add(q, scale(dot(sub(x, q), d) / dd, d))
        return sub(scale(2, foot), x)

    return _map_points(obj, m)


def point_reflection(obj, q):
    return _map_points(obj, lambda x: sub(scale(2, q), x))


def scaled_about(obj, q, k):
    return _map_points(obj, lambda x: add(q, scale(F(k), sub(x, q))))


def translated(obj, t):
    return _map_points(obj, lambda x: add(x, t))


def _map_points(obj, m):
    obj = O.exact(obj)
    if obj[0] == 'Polygon':
        return ('Polygon', tuple(m(v) for v in obj[1]))
    if obj[0] == 'Polyhedron':
        return ('Polyhedron', tuple(tuple(m(v) for v in f) for f in obj[1]))
    raise ValueError(obj[0])


def _half_offset(rng, lo=1, hi=3):
    """Non-zero half-lattice number."""
    return rng.choice((1, -1)) * F(rng.randint(lo, hi * 2), 2)


def _polygon_in_plane(rng, origin, u, w, size=1):
    """A template polygon mapped affinely into the plane origin + x u + y w, with its vertex
    centroid at origin (affine images of convex polygons are convex)."""
    _, pts = polygon_2d(rng)
    cx = sum(p[0] for p in pts) / len(pts)
    cy = sum(p[1] for p in pts) / len(pts)
    return ('Polygon', tuple(add(origin, add(scale((x - cx) * size, u), scale((y - cy) * size, w)))
                             for x, y in pts))


def _plane_basis(rng, n):
    """Two independent rational vectors orthogonal to n, each of sup-norm 1."""
    u = _dir_orthogonal(rng, n)
    w = O._primitive(cross(n, u))
    return (scale(1 / max(abs(c) for c in u), u), scale(1 / max(abs(c) for c in w), w))


def _triangle_outside(base_pts, n, rng):
    """Convex hull of base_pts (1 or 2 points) and extra points strictly on the positive side
    of the plane through them with normal n: a triangle touching that plane in base_pts."""
    pts = list(base_pts)
    ref = pts[0]
    while len(pts) < 3:
        w = lattice_dir(rng)
        if dot(w, n) < 0:
            w = scale(-1, w)
        cand = add(ref, w)
        if dot(w, n) > 0 and O.affine_rank(pts + [cand]) == len(pts):
            pts.append(cand)
    return ('Polygon', tuple(pts))


def _solid_outside(base_pts, n, rng):
    """Tetrahedron-like hull of base_pts (1-3 points, affinely independent) and extra points
    strictly on the positive side of n: touches the plane exactly in hull(base_pts)."""
    pts = list(base_pts)
    ref = pts[0]
    while len(pts) < 4:
        w = lattice_dir(rng)
        if dot(w, n) < 0:
            w = scale(-1, w)
        cand = add(ref, w)
        if dot(w, n) > 0 and O.affine_rank(pts + [cand]) == len(pts):
            pts.append(cand)
    return O.convex_hull(pts)


def _translated_half(A, t, want, label):
    """(A', A' + t', label): A' = A scaled by 1, 2, 4 or 8 (then t' = t/2, t/4, ... for very
    thin bodies) until A' and its translate by the half-lattice vector overlap in full
    dimension (result kind ``want``)."""
    for k, div in ((1, 1), (2, 1), (4, 1), (8, 1), (8, 2), (8, 4), (8, 8), (8, 16), (8, 64), (8, 1024)):
        Ak = scaled_about(A, (F(0), F(0), F(0)), k)
        B = translated(Ak, scale(F(1, div), t))
        r = O.intersect(Ak, B)
        if r is not None and r[0] == want:
            return Ak, B, label
    raise ValueError('no overlapping translate')


def _pp_designs(rng):
    """Polygon - polygon designs in the construction frame."""
    out = []
    _, pts = polygon_2d(rng)
    A = _lift(pts)
    geo = _Geo(A)
    n = geo.normals[0]
    c = geo.center
    v = rng.choice(geo.verts)
    e = rng.choice(geo.edges)
    ed = sub(e[1], e[0])
    # coplanar
    out.append((A, ('Polygon', tuple(reversed(A[1]))), 'pp_coplanar_equal'))
    out.append(_translated_half(A, (_half_offset(rng, 1, 1), _half_offset(rng, 1, 1), F(0)),
                                'Polygon', 'pp_coplanar_translated_half'))
    out.append((A, scaled_about(A, geo.inner(rng), F(1, 2)), 'pp_coplanar_nested'))
    out.append((A, scaled_about(A, v, F(1, 2)), 'pp_coplanar_nested_shared_vertex'))
    out.append((A, translated(A, (F(20), _half_offset(rng), 0)), 'pp_coplanar_disjoint'))
    out.append((A, point_reflection(A, v), 'pp_coplanar_share_vertex'))
    out.append((A, mirror_in_plane(A, e[0], cross(ed, n)), 'pp_coplanar_share_edge'))
    out.append((A, translated(mirror_in_plane(A, e[0], cross(ed, n)), scale(F(1, 2), ed)),
                'pp_coplanar_edges_overlap'))
    _, pts2 = polygon_2d(rng)
    B = _lift(pts2)
    cb = O.centroid(B[1])
    out.append((A, translated(B, add(sub(geo.inner(rng), cb), (F(1, 2), F(1, 4), 0))),
                'pp_coplanar_generic_overlap'))
    E = geo.inner(rng, list(e))
    mo = geo.support_normal_at_edge(e)  # in-plane, pointing out of A at e
    w1 = add(scale(2, mo), ed)
    w2 = add(scale(3, mo), scale(-1, ed))
    out.append((A, ('Polygon', (E, add(E, w1), add(E, w2))), 'pp_coplanar_vertex_on_edge'))
    # coplanar, crossing without containing each other's vertices (added after seed C12-B slipped through: a plus sign of two
    # rectangles and a hexagram of two triangles, in the construction frame z = 0, later posed like every other pair)
    a_, b_ = F(rng.randint(3, 5)), F(rng.randint(1, 2), 2)
    ox, oy = F(rng.randint(-3, 3)), F(rng.randint(-3, 3))
    rect = lambda hx, hy: ('Polygon', ((ox - hx, oy - hy, F(0)), (ox + hx, oy - hy, F(0)), (ox + hx, oy + hy, F(0)), (ox - hx, oy + hy, F(0))))
    out.append((rect(a_, b_), rect(b_, a_), 'pp_coplanar_plus_sign'))
    t_ = F(rng.randint(2, 4))
    tri_up = ('Polygon', ((ox - 2 * t_, oy - t_, F(0)), (ox + 2 * t_, oy - t_, F(0)), (ox, oy + 2 * t_, F(0))))
    tri_dn = ('Polygon', ((ox - 2 * t_, oy + t_, F(0)), (ox, oy - 2 * t_, F(0)), (ox + 2 * t_, oy + t_, F(0))))
    out.append((tri_up, tri_dn, 'pp_coplanar_hexagram'))
    # parallel planes
    out.append((A, translated(A, (0, 0, _half_offset(rng))), 'pp_parallel_planes'))
    # crossing planes
    P = geo.inner(rng)
    m = _dir_not_parallel(rng, n)           # normal of B's plane
    u, w = _plane_basis(rng, m)
    out.append((A, _polygon_in_plane(rng, P, u, w, 4), 'pp_crossing_through_interior_large'))
    out.append((A, _polygon_in_plane(rng, P, u, w, F(1, 32)), 'pp_crossing_small_inside'))
    out.append((A, _polygon_in_plane(rng, E, u, w, F(1, 2)), 'pp_crossing_centred_on_edge'))
    out.append((A, _polygon_in_plane(rng, add(c, scale(25, O._primitive(cross(m, n)))), u, w),
                'pp_crossing_planes_disjoint'))
    up = n if rng.random() < 0.5 else scale(-1, n)
    out.append((A, _triangle_outside([P], up, rng), 'pp_vertex_touches_interior'))
    out.append((A, _triangle_outside([v], up, rng), 'pp_crossing_share_vertex'))
    out.append((A, _triangle_outside([e[0], e[1]], up, rng), 'pp_crossing_share_edge'))
    Q = geo.inner(rng)
    if Q != P:
        out.append((A, _triangle_outside([P, Q], up, rng), 'pp_edge_lies_in_interior'))
    out.append((A, _triangle_outside([P, add(P, scale(3, sub(E, P)))], up, rng), 'pp_edge_lies_across_boundary'))
    return out


def _pg_ph_designs(rng):
    """Polyhedron - polygon designs, returned as (polygon, polyhedron, label)."""
    out = []
    _, K = polyhedron_frame(rng)
    geo = _Geo(K)
    c = geo.center
    P = geo.inner(rng)
    v = rng.choice(geo.verts)
    e = rng.choice(geo.edges)
    fi = rng.randrange(len(geo.faces))
    face = ('Polygon', geo.faces[fi])
    n = geo.normals[fi]
    fgeo = _Geo(face)
    Fp = fgeo.inner(rng)
    while True:
        m = lattice_dir(rng)
        if all(not O.is_zero(cross(m, nn)) for nn in geo.normals):
            break
    u, w = _plane_basis(rng, m)
    out.append((_polygon_in_plane(rng, P, u, w, 6), K, 'pg_ph_cut_large'))
    out.append((_polygon_in_plane(rng, P, u, w, F(1, 32)), K, 'pg_ph_cut_small_inside'))
    out.append((_polygon_in_plane(rng, Fp, u, w, F(1, 4)), K, 'pg_ph_cut_partial'))
    out.append((_polygon_in_plane(rng, add(c, scale(25, m)), u, w), K, 'pg_ph_disjoint'))
    fu, fw = _plane_basis(rng, n)
    out.append((_polygon_in_plane(rng, P, fu, fw, 6), K, 'pg_ph_parallel_to_face_cut_large'))
    # in a face plane
    out.append((face, K, 'pg_ph_face_itself'))
    out.append((scaled_about(face, Fp, F(1, 2)), K, 'pg_ph_inside_face'))
    out.append((scaled_about(face, Fp, 2), K, 'pg_ph_containing_face'))
    out.append((translated(face, scale(F(1, 2), sub(rng.choice(face[1]), fgeo.center))), K,
                'pg_ph_face_plane_overlap'))
    out.append((translated(face, scale(5, sub(rng.choice(face[1]), fgeo.center))), K,
                'pg_ph_face_plane_disjoint'))
    out.append((translated(face, scale(F(1, 2), _sup1(n))), K, 'pg_ph_parallel_off_face'))
    # touching from outside
    out.append((_triangle_outside([v], geo.support_normal_at_vertex(v), rng), K, 'pg_ph_touch_vertex'))
    out.append((_triangle_outside([e[0], e[1]], geo.support_normal_at_edge(e), rng), K, 'pg_ph_touch_edge'))
    out.append((_triangle_outside([Fp], n, rng), K, 'pg_ph_vertex_on_face'))
    Fq = fgeo.inner(rng)
    if Fq != Fp:
        out.append((_triangle_outside([Fp, Fq], n, rng), K, 'pg_ph_edge_on_face'))
    # an edge in the plane of a face, beyond the face, whose carrier line grazes exactly one corner of the face (disjoint)
    fv = list(geo.faces[fi])
    ci = rng.randrange(len(fv))
    dgr = sub(fv[(ci + 1) % len(fv)], fv[ci - 1])
    out.append((_triangle_outside([add(fv[ci], scale(2, dgr)), add(fv[ci], scale(4, dgr))], n, rng), K, 'pg_ph_edge_in_face_plane_line_grazes_corner'))
    # polygon with a vertex at an inner point, through a vertex
    far = add(P, scale(3, sub(geo.inner(rng, list(e)), v)))
    if O.affine_rank([v, P, far]) == 2:
        out.append((('Polygon', (v, P, far)), K, 'pg_ph_from_vertex_through_interior'))
    return out


def _ph_ph_designs(rng):
    out = []
    _, A = polyhedron_frame(rng)
    geo = _Geo(A)
    v = rng.choice(geo.verts)
    e = rng.choice(geo.edges)
    fi = rng.randrange(len(geo.faces))
    face = geo.faces[fi]
    n = geo.normals[fi]
    fgeo = _Geo(('Polygon', face))
    Fp = fgeo.inner(rng)
    out.append((A, O.convex_hull(geo.verts), 'ph_ph_equal'))
    out.append(_translated_half(A, (_half_offset(rng, 1, 1), _half_offset(rng, 1, 1), F(rng.randint(0, 1), 2)),
                                'Polyhedron', 'ph_ph_translated_half'))
    out.append((A, scaled_about(A, geo.inner(rng), F(1, 2)), 'ph_ph_nested'))
    out.append((A, scaled_about(A, v, F(1, 2)), 'ph_ph_nested_shared_vertex'))
    out.append((A, scaled_about(A, Fp, F(1, 2)), 'ph_ph_nested_touching_face'))
    out.append((A, translated(A, (F(30), _half_offset(rng), 0)), 'ph_ph_disjoint'))
    out.append((A, point_reflection(A, v), 'ph_ph_share_vertex'))
    out.append((A, half_turn_about_line(A, e[0], sub(e[1], e[0])), 'ph_ph_share_edge'))
    out.append((A, mirror_in_plane(A, face[0], n), 'ph_ph_share_face'))
    out.append((A, translated(mirror_in_plane(A, face[0], n), scale(F(1, 2), sub(face[1], face[0]))),
                'ph_ph_faces_overlap'))
    out.append((A, translated(mirror_in_plane(A, face[0], n), scale(F(1, 2), _sup1(n))), 'ph_ph_parallel_faces_gap'))
    _, B = polyhedron_frame(rng)
    cb = O.centroid(O.vertices(B))
    out.append((A, translated(B, add(sub(geo.inner(rng), cb), (F(1, 2), F(1, 4), F(-1, 4)))),
                'ph_ph_generic_overlap'))
    out.append((A, _solid_outside([Fp], n, rng), 'ph_ph_vertex_on_face'))
    Fq = fgeo.inner(rng)
    if Fq != Fp:
        out.append((A, _solid_outside([Fp, Fq], n, rng), 'ph_ph_edge_on_face'))
        Fr = fgeo.inner(rng)
        if O.affine_rank([Fp, Fq, Fr]) == 2:
            out.append((A, _solid_outside([Fp, Fq, Fr], n, rng), 'ph_ph_face_in_face'))
    fv = list(face)
    ci = rng.randrange(len(fv))
    dgr = sub(fv[(ci + 1) % len(fv)], fv[ci - 1])
    out.append((A, _solid_outside([add(fv[ci], scale(2, dgr)), add(fv[ci], scale(4, dgr))], n, rng), 'ph_ph_edge_in_face_plane_line_grazes_corner'))
    out.append((A, _solid_outside([v], geo.support_normal_at_vertex(v), rng), 'ph_ph_touch_vertex_generic'))
    out.append((A, _solid_outside([e[0], e[1]], geo.support_normal_at_edge(e), rng), 'ph_ph_touch_edge_generic'))
    E = geo.inner(rng, list(e))
    m = geo.support_normal_at_edge(e)
    t = _sup1(cross(m, sub(e[1], e[0])))
    out.append((A, _solid_outside([add(E, scale(-2, t)), add(E, scale(2, t))], m, rng), 'ph_ph_edges_cross_at_point'))
    return out


def convex_designs_pairs(rng):
    """One round of every convex - convex design, in the construction frame."""
    return _pp_designs(rng) + _pg_ph_designs(rng) + _ph_ph_designs(rng)


def convex_pairs(rng, n, families=('pp', 'pg_ph', 'ph_ph'), axis_share=0.1, both_orders=True):
    """n items (a, b, label) of convex pairs: polygon-polygon ('pp_*': crossing planes,
    coplanar, parallel), polygon-polyhedron ('pg_ph_*'), polyhedron-polyhedron ('ph_ph_*'):
    overlapping, nested, disjoint, sharing a vertex / an edge / a face / a plane, translated
    copies at half-lattice offsets.  Each pair is moved by one common random pose; with
    both_orders every other item is yielded with the operands swapped."""
    makers = {'pp': _pp_designs, 'pg_ph': _pg_ph_designs, 'ph_ph': _ph_ph_designs}
    count = 0
    while count < n:
        for fam in families:
            for a, b, label in makers[fam](rng):
                if count >= n:
                    return
                a, b = _posed(rng, (a, b), axis_share)
                O.check_object(a)
                O.check_object(b)
                if both_orders and count % 2:
                    a, b = b, a
                yield a, b, label
                count += 1
