"""Bounded stand-in (DESIGN section 6): the contracts' postconditions evaluated
natively on the real, unmodified library over deterministic catalogues of
exact rational cases, with the exact oracle (g3dvc.oracle) as reference.

Everything here is labelled *bounded* in the evidence and is never added to the
count of discharged obligations.  It serves as (a) the only evidence for the
functions out of the solvers' reach, (b) a CPython cross-check of the proved
contracts, (c) the place where floating-point effects can show.
"""
import itertools
import math
import random
from fractions import Fraction

from . import oracle as O
from . import catalogue as K
from .engine import load_repo, mutable_ids

FLAT = ("Point", "Line", "HalfLine", "Segment", "Plane")
LIBNAME = {"Polygon": "ConvexPolygon", "Polyhedron": "ConvexPolyhedron"}


def ser(obj):
    """JSON-able form of an exact object / canonical result"""
    if obj is None:
        return None
    if isinstance(obj, (Fraction, int)):
        return str(Fraction(obj))
    if isinstance(obj, float):
        return repr(obj)
    if isinstance(obj, str):
        return obj
    return [ser(x) for x in obj]


def deser(x):
    if x is None:
        return None
    if isinstance(x, str):
        try:
            return Fraction(x)
        except ValueError:
            return x
    return tuple(deser(y) for y in x)


def to_lib_variant(g, obj, k):
    """the library object for an exact object, built in one of several legitimate ways (k selects): the plain constructor; a Plane from its
    general form a x + b y + c z = d with a non-unit (a, b, c); a polygon / polyhedron / segment / half-line / line built elsewhere and moved
    into place in place (the receiver of move() is used, not its return value)"""
    kind = obj[0]
    if k % 5 == 3:
        # every coordinate a fractions.Fraction (the library keeps exact types; its own results are floats, so the two meet inside the handlers)
        return O.to_lib(obj, "allfraction")
    if k % 5 == 4 and kind in ("Segment", "HalfLine", "Line", "Plane"):
        # the other documented constructor forms
        num = lambda t: [O.to_number(c, "float") for c in t]
        if kind == "Segment":
            return g.Segment(g.Point(*num(obj[1])), g.Vector(*num(O.sub(obj[2], obj[1]))))
        if kind == "HalfLine":
            return g.HalfLine(g.Point(*num(obj[1])), g.Point(*num(O.add(obj[1], obj[2]))))
        if kind == "Line":
            if (k // 5) % 2:
                return g.Line(g.Vector(*num(obj[1])), g.Vector(*num(obj[2])))
            return g.Line(g.Point(*num(obj[1])), g.Point(*num(O.add(obj[1], obj[2]))))
        if kind == "Plane":
            # three points of the plane: the support point and two in-plane lattice directions
            n = obj[2]
            cands = [c for c in (O.cross(n, (1, 0, 0)), O.cross(n, (0, 1, 0)), O.cross(n, (0, 0, 1))) if any(x != 0 for x in c)]
            u, w = cands[0], O.cross(n, cands[0])
            return g.Plane(g.Point(*num(obj[1])), g.Point(*num(O.add(obj[1], u))), g.Point(*num(O.add(obj[1], w))))
    if k % 3 == 1 and kind == "Plane":
        nn = obj[2]
        return g.Plane(*([O.to_number(c, "float") for c in nn] + [O.to_number(O.dot(nn, obj[1]), "float")]))
    if k % 3 == 2 and kind in ("Polygon", "Polyhedron", "Segment", "HalfLine", "Line", "Plane"):
        v = (Fraction(3), Fraction(-2), Fraction(5, 2))
        away = K.transform(obj, K.IDENTITY, O.scale(-1, v), 1)
        o = O.to_lib(away, "float")
        o.move(g.Vector(*[O.to_number(c, "float") for c in v]))
        return o
    return O.to_lib(obj, "float")


def same_lib_result(r1, r2, tol=1e-7):
    """two library results denote the same set (None; Point; Segment up to the order of its ends; HalfLine / Line / Plane by the library's own ==;
    polygons and polyhedra by their vertex sets)"""
    if r1 is None or r2 is None:
        return r1 is None and r2 is None
    if type(r1) is not type(r2):
        return False
    d1, d2 = O.from_lib(r1), O.from_lib(r2)
    near = lambda a, b: all(abs(x - y) <= tol * max(1.0, abs(x), abs(y)) for x, y in zip(a, b))
    same_set = lambda A, B: len(A) == len(B) and all(any(near(a, b) for b in B) for a in A) and all(any(near(a, b) for a in A) for b in B)
    k = d1[0]
    if k == "Point":
        return near(d1[1], d2[1])
    if k == "Segment":
        return same_set([d1[1], d1[2]], [d2[1], d2[2]])
    if k == "Polygon":
        return same_set(list(d1[1]), list(d2[1]))
    if k == "Polyhedron":
        return same_set(list(d1[2]), list(d2[2]))
    try:
        return bool(r1 == r2)
    except Exception:
        return False


def admitted(a, b, result):
    """the property's admission filter: every incidence exact or violated by a relative margin > 1e-3,
    no hashed quantity within 5e-13 of a rounding boundary of the 10-digit hash"""
    if not O.margin_ok(a, b, Fraction(1, 1000)):
        return False
    q = O.hash_quantities(a) + O.hash_quantities(b) + (O.hash_quantities(result) if result is not None else [])
    return O.hash_safe(q)


class Acc(object):
    def __init__(self, max_fail=6):
        self.ev = 0
        self.skipped = 0
        self.classes = set()
        self.failures = []
        self.samples = []
        self.max_fail = max_fail
        self.failed_classes = set()

    def case(self, klass):
        self.ev += 1
        self.classes.add(klass)

    def fail(self, klass, what, case, expected=None, observed=None):
        if klass in self.failed_classes or len(self.failures) >= self.max_fail:
            return
        self.failed_classes.add(klass)
        self.failures.append({"class": klass, "what": what, "case": case, "expected": expected, "observed": observed})

    def sample(self, s):
        if len(self.samples) < 2:
            self.samples.append(s)

    def result(self, **kw):
        d = dict(evaluations=self.ev, classes=sorted(self.classes), failures=self.failures, samples=self.samples, skipped=self.skipped)
        d.update(kw)
        return d


def _call(f, *a):
    try:
        return ("ret", f(*a))
    except Exception as e:  # noqa
        return ("exc", e)


def check_intersection_case(g, a, b, klass, acc, label, faces=False):
    """one admitted case (a, b exact objects): both orders and the method form against the oracle"""
    exact = O.intersect(a, b)
    if not admitted(a, b, exact):
        acc.skipped += 1
        return
    acc.case(klass)
    variant = acc.ev  # rotates through the ways of building the operands
    try:
        if variant % 5 == 3:  # one numeric type per case: both operands in Fractions
            A, B = O.to_lib(a, "allfraction"), O.to_lib(b, "allfraction")
        else:
            vb = variant // 3
            A, B = to_lib_variant(g, a, variant), to_lib_variant(g, b, vb)  # (this also mixes a Fraction operand with a float one)
    except Exception as e:
        acc.fail(klass, "building the operands (variant %d) raised %r" % (variant, e), dict(a=ser(a), b=ser(b), label=label, variant=variant))
        return
    case = dict(a=ser(a), b=ser(b), label=label, variant=variant)
    forms = [("intersection(a, b)", lambda: g.intersection(A, B)), ("intersection(b, a)", lambda: g.intersection(B, A))]
    if a[0] != "Point":
        forms.append(("a.intersection(b)", lambda: A.intersection(B)))
    for name, f in forms:
        kind, val = _call(f)
        if kind == "exc":
            acc.fail(klass, "%s raised %r" % (name, val), case, expected=ser(exact), observed=repr(val))
            return
        ok, why = O.matches(val, exact, 1e-7, faces=faces)
        if not ok:
            acc.fail(klass, "%s: %s" % (name, why), case, expected=ser(exact), observed=ser(O.from_lib(val)))
            return
        if exact is not None and exact[0] == "Polyhedron":
            v = _call(val.volume)
            ev = float(O.volume(exact))
            if v[0] == "exc" or abs(v[1] - ev) > 1e-7 * max(1.0, abs(ev)):
                acc.fail(klass, "%s: volume of the result %r, expected %r" % (name, v[1], ev), case)
                return
        if exact is not None and exact[0] == "Polygon":
            v = _call(val.area)
            ea = O.area_float(exact)
            if v[0] == "exc" or abs(v[1] - ea) > 1e-7 * max(1.0, abs(ea)):
                acc.fail(klass, "%s: area of the result %r, expected %r" % (name, v[1], ea), case)
                return
    # hidden state behind the answer (memoised results, cached helper objects handed out): the caller moves the object it was given and asks again
    if val is not None and hasattr(val, "move") and not (mutable_ids(val) & (mutable_ids(A) | mutable_ids(B))):
        kind, again = _call(lambda: (val.move(g.Vector(3, -1, 2)), forms[0][1]())[1])
        if kind == "exc" or not O.matches(again, exact, 1e-7, faces=faces)[0]:
            acc.fail(klass, "asked again after the caller moved the first answer: %r" % (again,), case, expected=ser(exact), observed=repr(again))
            return
    acc.sample(dict(klass=klass, a=ser(a), b=ser(b), expected=ser(exact)))


def replay_intersection(case):
    g = load_repo()
    a, b = deser(case["a"]), deser(case["b"])
    acc = Acc()
    acc.ev = int(case.get("variant", 0)) - 1 if case.get("variant") is not None else 0
    if acc.ev < 0:
        acc.ev = 0
    check_intersection_case(g, a, b, "replay", acc, case.get("label", ""))
    return dict(fails=bool(acc.failures), observed=acc.failures[:1], admitted=acc.ev > 0)


def flat_flat(seed, per_pair):
    """C01: all 25 ordered flat pairs in the designed relative positions"""
    g = load_repo()
    acc = Acc()
    for ka in FLAT:
        for kb in FLAT:
            rng = K.make_rng(seed * 1000 + FLAT.index(ka) * 10 + FLAT.index(kb))
            for a, b, label in K.flat_pairs(ka, kb, rng, per_pair):
                check_intersection_case(g, a, b, "%s-%s:%s" % (ka, kb, label), acc, label)
    return acc.result()


def flat_convex(seed, kind, body, n_bodies, per_body):
    """C02: one flat kind against polygons or polyhedra"""
    g = load_repo()
    acc = Acc()
    rng = K.make_rng(seed * 100 + FLAT.index(kind) * 2 + (body == "Polyhedron"))
    bodies = list(K.polygons(rng, n_bodies)) if body == "Polygon" else list(K.polyhedra(rng, n_bodies))
    for Kb in bodies:
        nv = len(O.vertices(Kb)) if Kb[0] == "Polygon" else len(O.polyhedron_vertices(Kb[1]))
        for f, label in K.flat_vs_convex(kind, Kb, rng, per_body):
            check_intersection_case(g, f, Kb, "%s-%s:%s" % (kind, body, label), acc, label)
    return acc.result()


def convex_convex(seed, family, n):
    """C03: polygon-polygon / polygon-polyhedron / polyhedron-polyhedron"""
    g = load_repo()
    acc = Acc()
    rng = K.make_rng(seed * 10 + {"pp": 1, "pg_ph": 2, "ph_ph": 3}[family])
    for a, b, label in K.convex_pairs(rng, n, families=(family,)):
        check_intersection_case(g, a, b, "%s:%s" % (family, label), acc, label, faces=True)
    return acc.result()


# -- membership --------------------------------------------------------------------

def check_membership_case(g, cont, x, klass, acc):
    """x: exact Point / Segment / HalfLine / Line / Polygon; cont: exact container"""
    if not admitted(cont, x, None):
        acc.skipped += 1
        return
    acc.case(klass)
    try:
        if acc.ev % 5 == 3:
            Cn, X = O.to_lib(cont, "allfraction"), O.to_lib(x, "allfraction")
        else:
            vb = acc.ev // 3
            Cn, X = to_lib_variant(g, cont, acc.ev), to_lib_variant(g, x, vb)
    except Exception as e:
        acc.fail(klass, "building the operands raised %r" % (e,), dict(container=ser(cont), x=ser(x)))
        return
    exp = O.contains(cont, x[1]) if x[0] == "Point" else O.contains_obj(cont, x)
    kind, val = _call(lambda: X in Cn)
    case = dict(container=ser(cont), x=ser(x))
    if kind == "exc":
        acc.fail(klass, "`x in S` raised %r" % (val,), case, expected=exp)
    elif bool(val) != exp or not isinstance(val, bool):
        acc.fail(klass, "`x in S` is %r, expected %r" % (val, exp), case, expected=exp, observed=repr(val))
    acc.sample(dict(klass=klass, container=ser(cont), x=ser(x), expected=exp))


def membership(seed, n):
    """C05: points and composite candidates against every container kind"""
    g = load_repo()
    acc = Acc()
    rng = K.make_rng(seed + 5)
    for kb in ("Line", "HalfLine", "Segment", "Plane"):
        for a, b, label in K.flat_pairs("Point", kb, rng, n):
            check_membership_case(g, b, a, "Point in %s:%s" % (kb, label), acc)
    for body, gen in (("Polygon", K.polygons), ("Polyhedron", K.polyhedra)):
        for Kb in gen(rng, max(4, n // 8)):
            for f, label in K.flat_vs_convex("Point", Kb, rng, 12):
                check_membership_case(g, Kb, f, "Point in %s:%s" % (body, label), acc)
            for f, label in K.flat_vs_convex("Segment", Kb, rng, 12):
                check_membership_case(g, Kb, f, "Segment in %s:%s" % (body, label), acc)
    for ka, kb in (("Segment", "Line"), ("Segment", "HalfLine"), ("Segment", "Segment"), ("Segment", "Plane"), ("HalfLine", "Line"), ("HalfLine", "HalfLine"),
                   ("HalfLine", "Plane"), ("Line", "Plane")):
        for a, b, label in K.flat_pairs(ka, kb, rng, n):
            check_membership_case(g, b, a, "%s in %s:%s" % (ka, kb, label), acc)
    for Kb in K.polyhedra(rng, max(4, n // 8)):
        for f, label in K.flat_vs_convex("Plane", Kb, rng, 4):
            pass
    for a, b, label in K.convex_pairs(rng, n, families=("pg_ph",), both_orders=False):
        pg, ph = (a, b) if a[0] == "Polygon" else (b, a)
        check_membership_case(g, ph, pg, "Polygon in Polyhedron:%s" % label, acc)
        plane = ("Plane", pg[1][0], O.polygon_normal(pg[1]))
        check_membership_case(g, plane, pg, "Polygon in Plane:own plane", acc)
        off = ("Plane", O.add(pg[1][0], O.polygon_normal(pg[1])), O.polygon_normal(pg[1]))
        check_membership_case(g, off, pg, "Polygon in Plane:parallel displaced", acc)
    return acc.result()


def replay_membership(case):
    g = load_repo()
    acc = Acc()
    check_membership_case(g, deser(case["container"]), deser(case["x"]), "replay", acc)
    return dict(fails=bool(acc.failures), observed=acc.failures[:1], admitted=acc.ev > 0)


# -- measures ----------------------------------------------------------------------

def measures(seed, n, perms):
    """C06: length / area / volume of polygons and polyhedra under vertex / face permutations and face orientations"""
    g = load_repo()
    acc = Acc()
    rng = K.make_rng(seed + 6)

    def close(x, y):
        return abs(x - y) <= 1e-9 * max(1.0, abs(y))

    def P(v):
        return g.Point(*[O.to_number(c, "float") for c in v])

    for pg in K.polygons(rng, n):
        verts = list(pg[1])
        exp_len, exp_area = O.perimeter_float(pg), O.area_float(pg)
        orders = [verts, verts[::-1]] + [rng.sample(verts, len(verts)) for _ in range(perms)]
        for order in orders:
            klass = "polygon n=%d" % len(verts)
            acc.case(klass)
            case = dict(polygon=ser(("Polygon", tuple(order))))
            form = acc.ev % 3  # the plain constructor; the public reverse=True keyword (same polygon, opposite normal); the negation of the polygon
            case["form"] = ("ConvexPolygon(points)", "ConvexPolygon(points, reverse=True)", "-ConvexPolygon(points)")[form]
            r = _call(lambda: g.ConvexPolygon(tuple(P(v) for v in order), reverse=True) if form == 1 else (-g.ConvexPolygon(tuple(P(v) for v in order)) if form == 2 else g.ConvexPolygon(tuple(P(v) for v in order))))
            if r[0] == "exc":
                acc.fail(klass, "constructor raised %r" % (r[1],), case)
                continue
            L, A = _call(r[1].length), _call(r[1].area)
            if L[0] == "exc" or A[0] == "exc" or not close(L[1], exp_len) or not close(A[1], exp_area):
                acc.fail(klass, "length %r / area %r, expected %r / %r" % (L[1], A[1], exp_len, exp_area), case)
        a, b = verts[0], verts[1]
        s = g.Segment(P(a), P(b))
        acc.case("segment")
        if not close(s.length(), math.sqrt(float(O.length2(("Segment", a, b))))):
            acc.fail("segment", "Segment.length %r" % s.length(), dict(segment=ser(("Segment", a, b))))
    # short-lived polygons and pyramids, one after the other: the measures of an object are its own, whatever objects lived (at the same address) before it
    for k_ in range(1, 41):
        klass = "short-lived rectangle"
        acc.case(klass)
        w, h_ = k_, (k_ % 7) + 1
        pg = g.ConvexPolygon((g.Point(0, 0, 1), g.Point(w, 0, 1), g.Point(w, h_, 1), g.Point(0, h_, 1)))
        a_, l_ = pg.area(), pg.length()
        pyr = g.Pyramid(pg, g.Point(1, 1, 4), direct_call=False)
        v_ = pyr.volume()
        if not (close(a_, w * h_) and close(l_, 2 * (w + h_)) and close(v_, w * h_)):
            acc.fail(klass, "rectangle %d x %d built after other polygons were dropped: area %r, length %r, pyramid volume %r (height 3), expected %r, %r, %r" % (w, h_, a_, l_, v_, w * h_, 2 * (w + h_), w * h_),
                     dict(polygon=ser(("Polygon", ((0, 0, 1), (w, 0, 1), (w, h_, 1), (0, h_, 1))))))
        del pg, pyr
    for ph in K.polyhedra(rng, n):
        faces = [list(f) for f in ph[1]]
        expV, expA, expL = float(O.volume(ph)), O.surface_area_float(ph), O.edge_length_sum_float(ph)
        for k in range(perms + 1):
            fs = [list(f) for f in faces]
            if k:
                rng.shuffle(fs)
                fs = [f[::-1] if rng.random() < 0.5 else f for f in fs]
                fs = [f[i:] + f[:i] for f in fs for i in [rng.randrange(len(f))]]
            klass = "polyhedron F=%d V=%d" % (len(faces), len(O.polyhedron_vertices(ph[1])))
            acc.case(klass)
            case = dict(polyhedron=ser(("Polyhedron", tuple(tuple(f) for f in fs))))
            shift = (Fraction(0), Fraction(0), Fraction(0)) if k % 2 == 0 else (Fraction(-3), Fraction(2), Fraction(-5, 2))
            r = _call(lambda: g.ConvexPolyhedron(tuple(g.ConvexPolygon(tuple(P(O.add(v, shift)) for v in f)) for f in fs)))
            if r[0] == "exc":
                acc.fail(klass, "constructor raised %r" % (r[1],), case)
                continue
            if k % 2 == 1:  # built elsewhere and moved into place: the measures of the moved receiver are those of the body
                mv = _call(r[1].move, g.Vector(*[O.to_number(-c, "float") for c in shift]))
                if mv[0] == "exc":
                    acc.fail(klass, "move raised %r" % (mv[1],), case)
                    continue
            V, A, L, V2 = _call(r[1].volume), _call(r[1].area), _call(r[1].length), _call(g.volume, r[1])
            if any(x[0] == "exc" for x in (V, A, L, V2)):
                acc.fail(klass, "a measure raised: %r" % ([x[1] for x in (V, A, L, V2) if x[0] == "exc"],), case)
            elif not (close(V[1], expV) and close(A[1], expA) and close(L[1], expL) and close(V2[1], V[1])):
                acc.fail(klass, "volume %r area %r length %r volume() %r, expected %r %r %r" % (V[1], A[1], L[1], V2[1], expV, expA, expL), case)
            else:
                acc.sample(dict(klass=klass, volume=V[1], area=A[1], length=L[1]))
    return acc.result()


def replay_measures(case):
    g = load_repo()

    def P(v):
        return g.Point(*[O.to_number(c, "float") for c in v])

    def close(x, y):
        return abs(x - y) <= 1e-9 * max(1.0, abs(y))
    if "polygon" in case:
        pg = deser(case["polygon"])
        canon = ("Polygon", tuple(O.order_cyclic(list(pg[1]))))
        form = case.get("form", "")
        r = g.ConvexPolygon(tuple(P(v) for v in pg[1]), reverse=True) if "reverse" in form else g.ConvexPolygon(tuple(P(v) for v in pg[1]))
        if form.startswith("-"):
            r = -r
        ok = close(r.length(), O.perimeter_float(canon)) and close(r.area(), O.area_float(canon))
        return dict(fails=not ok, observed=dict(length=r.length(), area=r.area()), expected=dict(length=O.perimeter_float(canon), area=O.area_float(canon)))
    ph = deser(case["polyhedron"])
    canon = ("Polyhedron", tuple(tuple(O.order_cyclic(list(f))) for f in ph[1]))
    r = g.ConvexPolyhedron(tuple(g.ConvexPolygon(tuple(P(v) for v in f)) for f in ph[1]))
    ok = close(r.volume(), float(O.volume(canon))) and close(r.area(), O.surface_area_float(canon)) and close(r.length(), O.edge_length_sum_float(canon))
    return dict(fails=not ok, observed=dict(volume=r.volume(), area=r.area(), length=r.length()))


# -- distance, angle ---------------------------------------------------------------

def distances(seed, n):
    g = load_repo()
    acc = Acc()
    rng = K.make_rng(seed + 10)
    for ka, kb in (("Point", "Point"), ("Point", "Line"), ("Line", "Line"), ("Point", "Plane"), ("Line", "Plane")):
        for a, b, label in K.flat_pairs(ka, kb, rng, n):
            if not admitted(a, b, None):
                acc.skipped += 1
                continue
            klass = "%s-%s:%s" % (ka, kb, label)
            acc.case(klass)
            A, B = O.to_lib(a, "float"), O.to_lib(b, "float")
            exp = math.sqrt(float(O.distance2(a, b)))
            inter = O.intersect(a, b)
            case = dict(a=ser(a), b=ser(b), label=label)
            forms = [("distance(a, b)", lambda: g.distance(A, B)), ("distance(b, a)", lambda: g.distance(B, A))]
            if ka != "Point" or kb == "Point":
                forms.append(("a.distance(b)", lambda: A.distance(B)))
            if kb != "Point":
                forms.append(("b.distance(a)", lambda: B.distance(A)))
            if kb == "Plane":
                # the same plane given in general form a x + b y + c z = d (non-unit (a, b, c))
                nn = b[2]
                gf = [O.to_number(c, "float") for c in nn] + [O.to_number(O.dot(nn, b[1]), "float")]
                B2 = _call(g.Plane, *gf)
                if B2[0] == "exc":
                    acc.fail(klass, "Plane(a, b, c, d) raised %r" % (B2[1],), case, expected=exp)
                    continue
                forms += [("distance(a, Plane(a,b,c,d))", lambda: g.distance(A, B2[1])), ("distance(Plane(a,b,c,d), a)", lambda: g.distance(B2[1], A))]
            for name, f in forms:
                r = _call(f)
                if r[0] == "exc":
                    acc.fail(klass, "%s raised %r" % (name, r[1]), case, expected=exp)
                    break
                d = r[1]
                if not (d >= 0 and abs(d - exp) <= 1e-9 * max(1.0, exp)) or ((abs(d) <= 1e-9) != (inter is not None)):
                    acc.fail(klass, "%s = %r, expected %r (intersection %s)" % (name, d, exp, "non-empty" if inter is not None else "empty"), case, expected=exp, observed=d)
                    break
            acc.sample(dict(klass=klass, a=ser(a), b=ser(b), expected=exp))
    return acc.result()


def replay_distance(case):
    g = load_repo()
    a, b = deser(case["a"]), deser(case["b"])
    A, B = O.to_lib(a, "float"), O.to_lib(b, "float")
    exp = math.sqrt(float(O.distance2(a, b)))
    r = _call(g.distance, A, B)
    r2 = _call(g.distance, B, A)
    bad = any(x[0] == "exc" or abs(x[1] - exp) > 1e-9 * max(1.0, exp) for x in (r, r2))
    return dict(fails=bad, observed=[repr(r[1]), repr(r2[1])], expected=exp)


def angles(seed, span=3):
    """C11: all lattice direction pairs with components in -span..span (plus exact multiples), four type combinations, both orders"""
    g = load_repo()
    acc = Acc()
    P, V = g.Point, g.Vector
    dirs = [d for d in itertools.product(range(-span, span + 1), repeat=3) if any(d)]
    rng = random.Random(seed + 11)
    pairs = []
    for u in dirs:
        for k in (1, -1, 2, -2, 3, -3, Fraction(1, 2)):
            pairs.append((u, tuple(k * c for c in u)))
    pairs += [(u, v) for u in rng.sample(dirs, min(len(dirs), 60)) for v in rng.sample(dirs, 12)]
    for u, v in pairs:
        c2, sgn = O.cos2_angle(u, v)
        exact_angle = math.acos(min(1.0, math.sqrt(float(c2))))  # acute angle between the directions
        rel = "parallel" if c2 == 1 else ("perpendicular" if c2 == 0 else "generic")
        uf, vf = [O.to_number(c, "float") for c in u], [O.to_number(c, "float") for c in v]
        pa, pb = P(1, 2, 3), P(-2, 0, 1)
        combos = {
            "Vector-Vector": (V(*uf), V(*vf), exact_angle),
            "Line-Line": (g.Line(pa, V(*uf)), g.Line(pb, V(*vf)), exact_angle),
            "Plane-Plane": (g.Plane(pa, V(*uf)), g.Plane(pb, V(*vf)), exact_angle),
            "Line-Plane": (g.Line(pa, V(*uf)), g.Plane(pb, V(*vf)), math.pi / 2 - exact_angle),
        }
        for name, (a, b, exp) in combos.items():
            klass = "%s:%s" % (name, rel)
            acc.case(klass)
            case = dict(u=ser(u), v=ser(v), combo=name)
            exp_par = (exp <= 1e-12)
            exp_ort = (abs(exp - math.pi / 2) <= 1e-12)
            bad = None
            for x, y, tag in ((a, b, "(a, b)"), (b, a, "(b, a)")):
                r = _call(g.angle, x, y)
                rp = _call(g.parallel, x, y)
                ro = _call(g.orthogonal, x, y)
                if r[0] == "exc" or rp[0] == "exc" or ro[0] == "exc":
                    bad = "angle/parallel/orthogonal%s raised %r" % (tag, [z[1] for z in (r, rp, ro) if z[0] == "exc"][0])
                    break
                if not (-1e-12 <= r[1] <= math.pi / 2 + 1e-12) or abs(r[1] - exp) > 1e-7:
                    bad = "angle%s = %r, expected %r" % (tag, r[1], exp)
                    break
                if bool(rp[1]) != exp_par or bool(ro[1]) != exp_ort:
                    bad = "parallel%s = %r (expected %r), orthogonal%s = %r (expected %r)" % (tag, rp[1], exp_par, tag, ro[1], exp_ort)
                    break
            if bad:
                acc.fail(klass, bad, case, expected=exp)
            else:
                acc.sample(dict(klass=klass, u=ser(u), v=ser(v), expected=exp))
    return acc.result()


def replay_angle(case):
    g = load_repo()
    u, v = deser(case["u"]), deser(case["v"])
    V = g.Vector
    uf, vf = [O.to_number(c, "float") for c in u], [O.to_number(c, "float") for c in v]
    name = case.get("combo", "Vector-Vector")
    pa, pb = g.Point(1, 2, 3), g.Point(-2, 0, 1)
    a, b = {"Vector-Vector": lambda: (V(*uf), V(*vf)), "Line-Line": lambda: (g.Line(pa, V(*uf)), g.Line(pb, V(*vf))),
            "Plane-Plane": lambda: (g.Plane(pa, V(*uf)), g.Plane(pb, V(*vf))), "Line-Plane": lambda: (g.Line(pa, V(*uf)), g.Plane(pb, V(*vf)))}[name]()
    r = _call(g.angle, a, b)
    return dict(fails=r[0] == "exc", observed=repr(r[1]))


# -- construction (C09) ---------------------------------------------------------------

def construction(seed, n_obj, max_perms):
    """C09: polygons from every vertex order (exhaustive up to 5 vertices, sampled above) with duplicated vertices, negation;
    polyhedra from shuffled faces in sampled orientations; intersection results fed back as inputs"""
    g = load_repo()
    acc = Acc()
    rng = K.make_rng(seed + 9)

    def P(v):
        return g.Point(*[O.to_number(c, "float") for c in v])

    def f3(p):
        return (float(p[0]), float(p[1]), float(p[2]))

    def ccw_about(points, nrm):
        """all-pairs: every vertex strictly left of every directed edge, seen against the normal"""
        m = len(points)
        for i in range(m):
            a, b = points[i], points[(i + 1) % m]
            e = [b[k] - a[k] for k in range(3)]
            for j in range(m):
                if j in (i, (i + 1) % m):
                    continue
                w = [points[j][k] - a[k] for k in range(3)]
                cr = (e[1] * w[2] - e[2] * w[1], e[2] * w[0] - e[0] * w[2], e[0] * w[1] - e[1] * w[0])
                if sum(cr[k] * nrm[k] for k in range(3)) <= 1e-9:
                    return False
        return True

    def check_polygon(pg, verts, klass, case):
        pts = [f3(p) for p in pg.points]
        nrm = f3(pg.plane.n)
        exp = sorted(f3(v) for v in verts)
        if sorted(pts) != exp and not (len(pts) == len(exp) and all(any(max(abs(a[k] - b[k]) for k in range(3)) < 1e-9 for b in exp) for a in pts)):
            acc.fail(klass, "vertex set %r, expected the %d distinct given vertices" % (pts, len(exp)), case)
            return False
        if len(pts) != len(exp):
            acc.fail(klass, "%d vertices kept, %d distinct given" % (len(pts), len(exp)), case)
            return False
        if not ccw_about(pts, nrm):
            acc.fail(klass, "vertices are not a counter-clockwise convex cycle about the normal %r: %r" % (nrm, pts), case)
            return False
        c = [sum(p[k] for p in pts) / len(pts) for k in range(3)]
        if max(abs(c[k] - float(pg.center_point[k])) for k in range(3)) > 1e-9:
            acc.fail(klass, "centre %r is not the vertex mean %r" % (f3(pg.center_point), c), case)
            return False
        return True

    for pg in K.polygons(rng, n_obj):
        verts = list(pg[1])
        n = len(verts)
        if n <= 5:
            orders = list(itertools.permutations(verts))
            if len(orders) > max_perms:
                orders = rng.sample(orders, max_perms)
        else:
            orders = [rng.sample(verts, n) for _ in range(max_perms)]
        for order in orders:
            order = list(order)
            if rng.random() < 0.4:  # repeats
                for _ in range(rng.randint(1, 3)):
                    order.insert(rng.randrange(len(order) + 1), rng.choice(verts))
            klass = "polygon n=%d%s" % (n, " with repeats" if len(order) > n else "")
            acc.case(klass)
            case = dict(polygon=ser(("Polygon", tuple(order))))
            r = _call(lambda: g.ConvexPolygon(tuple(P(v) for v in order)))
            if r[0] == "exc":
                acc.fail(klass, "constructor raised %r" % (r[1],), case)
                continue
            if not check_polygon(r[1], verts, klass, case):
                continue
            neg = _call(lambda: -r[1])
            if neg[0] == "exc":
                acc.fail(klass, "negation raised %r" % (neg[1],), case)
                continue
            n0, n1 = f3(r[1].plane.n), f3(neg[1].plane.n)
            if max(abs(n0[k] + n1[k]) for k in range(3)) > 1e-9 or not check_polygon(neg[1], verts, klass + " negated", case):
                acc.fail(klass, "-polygon: normal %r (expected %r reversed) or orientation wrong" % (n1, n0), case)
                continue
            nn = _call(lambda: -(neg[1]))
            if nn[0] == "exc" or max(abs(f3(nn[1].plane.n)[k] - n0[k]) for k in range(3)) > 1e-9 or not (nn[1] == r[1]) or not nn[1].eq_with_normal(r[1]):
                acc.fail(klass, "-(-p) does not match p including the normal", case)
            acc.sample(dict(klass=klass, given=ser(tuple(order)), result=[f3(p) for p in r[1].points]))
    for ph in K.polyhedra(rng, n_obj):
        faces = [list(f) for f in ph[1]]
        V_exact = O.polyhedron_vertices(ph[1])
        E_exact = O.polyhedron_edges(ph[1])
        for trial in range(max(2, max_perms // 6)):
            fs = [list(f) for f in faces]
            rng.shuffle(fs)
            fs = [f[::-1] if rng.random() < 0.5 else f for f in fs]
            fs = [f[i:] + f[:i] for f in fs for i in [rng.randrange(len(f))]]
            klass = "polyhedron F=%d" % len(faces)
            acc.case(klass)
            case = dict(polyhedron=ser(("Polyhedron", tuple(tuple(f) for f in fs))))
            r = _call(lambda: g.ConvexPolyhedron(tuple(g.ConvexPolygon(tuple(P(v) for v in f)) for f in fs)))
            if r[0] == "exc":
                acc.fail(klass, "constructor raised %r" % (r[1],), case)
                continue
            body = r[1]
            c = f3(body.center_point)
            mean = [sum(float(v[k]) for v in V_exact) / len(V_exact) for k in range(3)]
            bad = None
            if len(body.point_set) != len(V_exact) or len(body.segment_set) != len(E_exact) or len(body.convex_polygons) != len(faces):
                bad = "V %d E %d F %d, expected %d %d %d" % (len(body.point_set), len(body.segment_set), len(body.convex_polygons), len(V_exact), len(E_exact), len(faces))
            elif len(body.point_set) - len(body.segment_set) + len(body.convex_polygons) != 2:
                bad = "V - E + F != 2"
            elif max(abs(c[k] - mean[k]) for k in range(3)) > 1e-9:
                bad = "centre %r is not the vertex mean %r" % (c, mean)
            elif not O.contains(ph, tuple(Fraction(x).limit_denominator(10 ** 6) for x in mean)):
                bad = "centre not inside"
            else:
                for f in body.convex_polygons:
                    nrm, p0 = f3(f.plane.n), f3(f.points[0])
                    if sum(nrm[k] * (p0[k] - c[k]) for k in range(3)) <= 1e-9:
                        bad = "a face normal does not point away from the interior"
                        break
                    if not ccw_about([f3(p) for p in f.points], nrm):
                        bad = "a face is not counter-clockwise about its outward normal"
                        break
            if bad:
                acc.fail(klass, bad, case)
            else:
                acc.sample(dict(klass=klass, V=len(body.point_set), E=len(body.segment_set), F=len(body.convex_polygons)))
    # results of intersections fed back as inputs
    for a, b, label in K.convex_pairs(rng, max(20, n_obj * 3), families=("pg_ph", "ph_ph")):
        exact = O.intersect(a, b)
        if exact is None or exact[0] != "Polygon" or not admitted(a, b, exact):
            continue
        res = _call(g.intersection, O.to_lib(a, "float"), O.to_lib(b, "float"))
        if res[0] == "exc" or type(res[1]).__name__ != "ConvexPolygon":
            continue
        klass = "fed back:%s" % label
        acc.case(klass)
        pts = list(res[1].points)
        rng.shuffle(pts)
        again = _call(lambda: g.ConvexPolygon(tuple(pts)))
        if again[0] == "exc" or not (again[1] == res[1]) or abs(again[1].area() - res[1].area()) > 1e-9 * max(1.0, res[1].area()):
            acc.fail(klass, "a polygon rebuilt from the shuffled vertices of an intersection result differs from it (%r)" % (again[1],), dict(a=ser(a), b=ser(b), label=label))
    return acc.result()


def replay_construction(case):
    g = load_repo()

    def P(v):
        return g.Point(*[O.to_number(c, "float") for c in v])
    try:
        if "polygon" in case:
            pg = deser(case["polygon"])
            r = g.ConvexPolygon(tuple(P(v) for v in pg[1]))
            distinct = sorted(set(tuple(map(float, v)) for v in pg[1]))
            ok = sorted((float(p.x), float(p.y), float(p.z)) for p in r.points) == distinct
            return dict(fails=not ok, observed=[(p.x, p.y, p.z) for p in r.points])
        if "polyhedron" in case:
            ph = deser(case["polyhedron"])
            r = g.ConvexPolyhedron(tuple(g.ConvexPolygon(tuple(P(v) for v in f)) for f in ph[1]))
            c = r.center_point
            ok = all(sum(f.plane.n[k] * (f.points[0][k] - c[k]) for k in range(3)) > 0 for f in r.convex_polygons)
            return dict(fails=not ok, observed="normals outward: %s" % ok)
    except Exception as e:
        return dict(fails=True, observed=repr(e))
    return dict(fails=False)
