#!/usr/bin/env python3
"""regenerates seeded/INDEX.md from the meta.json files"""
import json, os
ROOT = os.path.dirname(os.path.dirname(os.path.abspath(__file__)))
rows = []
for sid in sorted(os.listdir(os.path.join(ROOT, "seeded"))):
    mp = os.path.join(ROOT, "seeded", sid, "meta.json")
    if not os.path.exists(mp):
        continue
    m = json.load(open(mp))
    cr = m.get("checks_run") or {}
    det = [c for c, v in cr.items() if v.get("detected")]
    miss = [c for c, v in cr.items() if not v.get("detected")]
    rnd = sid.split("-")[0] if sid[0] == "R" else "R1"
    rows.append((rnd, sid, m.get("property", ""), (m.get("what") or "").replace("|", "/").replace("\n", " ")[:260], (m.get("needs_to_manifest") or "").replace("|", "/").replace("\n", " ")[:200],
                 ", ".join(det) or ("(neutralised)" if m.get("neutralised_by") else "-"), ", ".join(miss), m.get("neutralised_by", "")))
with open(os.path.join(ROOT, "seeded", "INDEX.md"), "w") as fh:
    fh.write("# Seeded changes (produced by independent sub-agents; never committed to /repo)\n\n")
    fh.write("`detected by` = checks that exit 1 with a VIOLATION line when the change is applied; `also run, silent` = checks that were run and (rightly or not) stayed silent.\n\n")
    fh.write("| round | seed | property given to the agent | what it changes | needs to manifest | detected by | also run, silent |\n|---|---|---|---|---|---|---|\n")
    for r in rows:
        fh.write("| %s | %s | %s | %s | %s | %s | %s |\n" % r[:7])
    neut = [r for r in rows if r[7]]
    if neut:
        fh.write("\n## Neutralised seeds\n\n")
        for r in neut:
            fh.write("* %s: %s\n" % (r[1], r[7]))
print(len(rows), "seeds")
