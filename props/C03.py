"""C03 - intersection of two convex polygons / polyhedra is the exact convex set."""
from g3dvc.runner import Group
from contracts import inter as CI
from props.C01 import set_group, MOD

PROPERTY = "C03"
LEVEL = "other"
ASSUMES = ["A1", "A2", "A4", "A5", "A6"]

SET_HANDLERS = [
    ("inter_convexpolygon_convexPolyhedron", None, None, ""),
    # the two polygons' planes cross or are parallel-disjoint (the coplanar branch builds a hull from hash sets: bounded stand-in)
    ("inter_convexpolygon_convexpolygon", {"inter_plane_plane": ("Plane",)}, None, ", planes not coincident"),
]
BOUNDED_ONLY = [MOD + ":inter_convexpolygon_convexpolygon (coplanar branch)", MOD + ":inter_convexpolyhedron_convexpolyhedron"]


def set_groups():
    return [set_group(name, restrict=restrict, flags=flags, suffix=suffix) for name, restrict, flags, suffix in SET_HANDLERS]


def groups(tier):
    gs = set_groups()
    ks = ("ConvexPolygon", "ConvexPolyhedron")
    for ta in ks:
        for tb in ks:
            calls = []
            gs.append(Group("dispatch[%s,%s]" % (ta, tb), CI.dispatch_harness(ta, tb, calls), [MOD + ":intersection", "Geometry3D.geometry.body:GeoBody.intersection"],
                            stubs=CI.recording_stubs(calls) + CI.membership_stubs(), world="SET", timeout_s=60, patches=False))
    return gs
