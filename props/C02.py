"""C02 - flat primitive vs convex polygon / polyhedron intersection is exact."""
from g3dvc.runner import Group
from contracts import inter as CI
from props.C01 import set_group, MOD

PROPERTY = "C02"
LEVEL = "other"
MANIFEST = dict(
    text=("Mixed. PROVED for all operands (SET world, opaque operands, so for every polygon size and polyhedron shape): the dispatcher for the 10 type pairs in both orders and the method form; the composition handlers "
          "inter_point_convexpolygon, inter_point_convexpolyhedron, inter_plane_convexpolygon, inter_segment_convexpolygon, inter_convexpolygon_halfline and inter_line_convexpolygon (line not in the polygon's plane) "
          "return exactly f cap K given the contracts of their callees, only documented result types, no 'Bug detected' branch. BOUNDED (labelled, not counted as proved): the handlers that assemble results from hash sets "
          "(coplanar line-polygon, line/plane/segment/half-line vs polyhedron and the aux_calc helpers) are checked on a catalogue of convex lattice bodies in oblique poses with f in generic and every designed degenerate position "
          "against an exact rational oracle (parametric clipping / vertex enumeration)."),
    note=("The proved compositions rest on the contracts of their callees, of which the polyhedron handlers and the coplanar branch are only bounded-checked (assumed contracts, listed in the evidence). "
          "A1 real arithmetic, A4 hash sets deduplicate by ==, A5 admissions. The oracle and the catalogue generators are trusted code (self-tested)."),
    technique="contract-based deductive verification of the composition handlers (ground EUF over membership atoms, z3) + labelled bounded stand-in with exact rational oracle for the hash-set handlers",
    design_ref="DESIGN.md section 9 (C02)",
)
EXPLANATION = ("proved: dispatcher and 6 composition handlers for all operands; bounded stand-in (not counted as proved): hash-set based handlers on a catalogue with an exact oracle")
ASSUMES = ["A1", "A2", "A4", "A5", "A6"]

SET_HANDLERS = [
    ("inter_point_convexpolygon", None, None, ""),
    ("inter_point_convexpolyhedron", None, None, ""),
    ("inter_plane_convexpolygon", None, None, ""),
    ("inter_segment_convexpolygon", None, None, ""),
    ("inter_convexpolygon_halfline", None, None, ""),
    # the line is not contained in the polygon's plane (the coplanar branch iterates over the edges: bounded stand-in)
    ("inter_line_convexpolygon", {"inter_line_plane": ("Line",)}, None, ", line not in the polygon's plane"),
]
BOUNDED_ONLY = [
    MOD + ":inter_line_convexpolygon (coplanar branch)", MOD + ":inter_line_convexpolyhedron", MOD + ":inter_plane_convexpolyhedron",
    MOD + ":inter_segment_convexpolyhedron", MOD + ":inter_convexpolyhedron_halfline",
    "Geometry3D.calc.aux_calc:get_segment_from_point_list", "Geometry3D.calc.aux_calc:get_segment_convexpolyhedron_intersection_point_set",
    "Geometry3D.calc.aux_calc:get_segment_convexpolygon_intersection_point_set", "Geometry3D.calc.aux_calc:get_halfline_convexpolyhedron_intersection_point_set",
]


def set_groups():
    return [set_group(name, restrict=restrict, flags=flags, suffix=suffix) for name, restrict, flags, suffix in SET_HANDLERS]


def groups(tier):
    gs = set_groups()
    for k in ("ConvexPolygon", "ConvexPolyhedron"):
        for f in ("Point", "Line", "HalfLine", "Segment", "Plane"):
            for ta, tb in ((f, k), (k, f)):
                calls = []
                gs.append(Group("dispatch[%s,%s]" % (ta, tb), CI.dispatch_harness(ta, tb, calls), [MOD + ":intersection", "Geometry3D.geometry.body:GeoBody.intersection"],
                                stubs=CI.recording_stubs(calls) + CI.membership_stubs(), world="SET", timeout_s=60, patches=False))
    return gs


def bounded(tier, seed):
    from g3dvc import bounded as B
    nb, per = (6, 40) if tier == "quick" else (40, 120)
    out = []
    for body in ("Polygon", "Polyhedron"):
        for kind in ("Point", "Line", "HalfLine", "Segment", "Plane"):
            out.append(("%s vs %s catalogue" % (kind, body), B.flat_convex, (seed, kind, body, nb, per), 3000))
    return out


def replay_case(case):
    from g3dvc import bounded as B
    return B.replay_intersection(case)
