"""C11 - angle, parallel and orthogonal agree with exact direction geometry."""
import math

from g3dvc.runner import Group
from g3dvc.sym import Sym, SymBool, F, And, Or, Not, Implies, Iff
from g3dvc import spec as SP
from contracts import common as C

PROPERTY = "C11"
LEVEL = "proof"
ASSUMES = ["A1", "A2", "A3", "A5", "A6"]
ANG = "Geometry3D.calc.angle:"
MANIFEST = dict(
    text=("Deductive proof, over all real direction vectors, of the contract of angle / parallel / orthogonal for Line-Line, Line-Plane, Plane-Plane and Vector-Vector in both argument orders and the method forms: "
          "none of them raises (acos domain by Cauchy-Schwarz, no zero division for valid operands), angle lies in [0, pi/2], is 0 exactly when the exact directions are parallel (line-plane: direction in the plane) and pi/2 exactly when they are "
          "perpendicular (line-plane: direction parallel to the normal), is the same in both orders, and parallel / orthogonal are True exactly in those two cases."),
    note=("A1: real arithmetic. In floating point the cosine of exactly parallel vectors can exceed 1 by one ulp; that effect is invisible to a proof over the reals and is what the labelled bounded stand-in "
          "(all lattice direction pairs with components in -3..3 and ratios +-1, +-2, +-3, 1/2; exact rational cos^2 reference) checks. A3: acos enters only through its range, its values at -1, 0, 1 and antitonicity."),
    technique='contract-based deductive verification of angle / parallel / orthogonal with an abstract acos token (z3) + labelled bounded enumeration of lattice direction pairs on floats',
    design_ref="DESIGN.md section 9 (C11)",
)
EXPLANATION = "four type combinations x both orders x function and method forms; the flat types have one shape"


def _A():
    import importlib
    return importlib.import_module("Geometry3D.calc.angle")


def harness(ka, kb):
    """ka, kb in Line / Plane / Vector"""

    def mk(vc, kind, name):
        return {"Line": C.line, "Plane": C.plane, "Vector": C.V}[kind](vc, name)

    def direction(o, kind):
        return SP.vec({"Line": lambda: o.dv, "Plane": lambda: o.n, "Vector": lambda: o}[kind]())

    def h(vc):
        g = C.G()
        A = _A()
        a, b = mk(vc, ka, "a"), mk(vc, kb, "b")
        u, v = direction(a, ka), direction(b, kb)
        if ka == "Vector":
            vc.assume(SP.vnonzero(u), "non-zero vector")
        if kb == "Vector":
            vc.assume(SP.vnonzero(v), "non-zero vector")
        cr = SP.cross(u, v)
        d = SP.dot(u, v)
        mixed = {ka, kb} == {"Line", "Plane"}
        # exact geometry: "aligned" = angle 0, "perp" = angle pi/2
        aligned = SP.eqz(d) if mixed else SP.vzero(cr)
        perp = SP.vzero(cr) if mixed else SP.eqz(d)
        if vc.symbolic:
            AA, BB = SP.norm2(u), SP.norm2(v)
            vc.hint("Lagrange", AA * BB - d * d == cr[0] * cr[0] + cr[1] * cr[1] + cr[2] * cr[2])
            d2 = SP.dot(v, u)
            cr2 = SP.cross(v, u)
            vc.hint("Lagrange (swapped)", BB * AA - d2 * d2 == cr2[0] * cr2[0] + cr2[1] * cr2[1] + cr2[2] * cr2[2])
            vc.hint("dot commutes", d == d2)
            vc.ghost(AA, BB, d, d2, cr[0], cr[1], cr[2], cr2[0], cr2[1], cr2[2])
        before = (vc.snapshot(a), vc.snapshot(b))
        forms = {"angle": [("angle(a, b)", lambda: A.angle(a, b)), ("angle(b, a)", lambda: A.angle(b, a))],
                 "parallel": [("parallel(a, b)", lambda: A.parallel(a, b)), ("parallel(b, a)", lambda: A.parallel(b, a))],
                 "orthogonal": [("orthogonal(a, b)", lambda: A.orthogonal(a, b)), ("orthogonal(b, a)", lambda: A.orthogonal(b, a))]}
        if ka != "Vector":
            forms["angle"].append(("a.angle(b)", lambda: a.angle(b)))
            forms["parallel"].append(("a.parallel(b)", lambda: a.parallel(b)))
            forms["orthogonal"].append(("a.orthogonal(b)", lambda: a.orthogonal(b)))
        if kb != "Vector":
            forms["angle"].append(("b.angle(a)", lambda: b.angle(a)))
            forms["parallel"].append(("b.parallel(a)", lambda: b.parallel(a)))
            forms["orthogonal"].append(("b.orthogonal(a)", lambda: b.orthogonal(a)))
        thetas = []
        half_pi = math.pi / 2
        for lab, f in forms["angle"]:
            out = vc.call(f)
            vc.ensure("%s does not raise" % lab, out.returned)
            if not out.returned:
                vc.note("%s raised %r" % (lab, out.value))
                continue
            th = out.value
            thetas.append((lab, th))
            vc.ensure("0 <= %s <= pi/2" % lab, And(SP.gez(th), SP.gez(half_pi - th)))
            vc.ensure("%s = 0 <=> exactly parallel" % lab, Iff(SP.eqz(th), aligned))
            vc.ensure("%s = pi/2 <=> exactly perpendicular" % lab, Iff(SP.eqz(th - half_pi), perp))
        for lab, th in thetas[1:]:
            vc.ensure("%s = %s (symmetric, method form agrees)" % (lab, thetas[0][0]), SP.eq(th, thetas[0][1]))
        for key, target in (("parallel", aligned), ("orthogonal", perp)):
            for lab, f in forms[key]:
                out = vc.call(f)
                vc.ensure("%s does not raise" % lab, out.returned)
                if not out.returned:
                    vc.note("%s raised %r" % (lab, out.value))
                    continue
                r = out.value
                rf = F(r) if isinstance(r, SymBool) else bool(r)
                vc.ensure("%s <=> angle is %s" % (lab, "0" if key == "parallel" else "pi/2"), Iff(rf, target))
        vc.ensure("frame: operands unchanged", (vc.snapshot(a), vc.snapshot(b)) == before)

    return h


def h_unsupported(vc):
    """unsupported operand types raise NotImplementedError (C15's clause for angle / parallel / orthogonal)"""
    g = C.G()
    A = _A()
    P, V = g.Point, g.Vector
    objs = {"Point": P(1, 2, 3), "Line": g.Line(P(1, 2, 3), V(2, 1, 2)), "Plane": g.Plane(P(1, 2, 3), V(2, 1, 2)), "Vector": V(1, 0, 0),
            "Segment": g.Segment(P(1, 2, 3), P(2, 4, 4)), "HalfLine": g.HalfLine(P(1, 2, 3), V(2, 1, 2)), "int": 3, "None": None,
            "ConvexPolygon": g.ConvexPolygon((P(0, 0, 0), P(2, 0, 0), P(2, 1, 0), P(0, 1, 0)))}
    ok = {("Line", "Line"), ("Line", "Plane"), ("Plane", "Line"), ("Plane", "Plane"), ("Vector", "Vector")}
    for na, a in objs.items():
        for nb, b in objs.items():
            if (na, nb) in ok:
                continue
            for fn in ("angle", "parallel", "orthogonal"):
                out = vc.call(getattr(A, fn), a, b)
                vc.ensure("%s(%s, %s) raises NotImplementedError / ValueError / TypeError" % (fn, na, nb), out.raised(NotImplementedError, ValueError, TypeError))


def groups(tier):
    stubs = [(C.T_PAR, C.x_parallel), (C.T_ORT, C.x_orthogonal), (C.T_NULL, C.x_null), (C.T_LENGTH, C.x_length), (C.T_VEQ, C.x_vector_eq)]
    gs = []
    for ka, kb in (("Line", "Line"), ("Line", "Plane"), ("Plane", "Plane"), ("Vector", "Vector")):
        gs.append(Group("angle/parallel/orthogonal[%s,%s]" % (ka, kb), harness(ka, kb), [ANG + "angle", ANG + "parallel", ANG + "orthogonal", "Geometry3D.calc.acute:acute",
                        "Geometry3D.utils.vector:Vector.angle", "Geometry3D.geometry.body:GeoBody.angle"], stubs=stubs, world="SCALAR", timeout_s=900, prove_ms=30000))
    gs.append(Group("unsupported operands raise", h_unsupported, [ANG + "angle", ANG + "parallel", ANG + "orthogonal"], world="CONFIG", timeout_s=120, patches=False))
    return gs


def bounded(tier, seed):
    from g3dvc import bounded as B
    return [("lattice direction pairs", B.angles, (seed, 3 if tier == "quick" else 4), 3000)]


def replay_case(case):
    from g3dvc import bounded as B
    return B.replay_angle(case)
