"""C05 - membership (`in`) agrees with exact geometric containment.

Each tolerant predicate P(q) gets the tolerance contract
    |q| <= eps/1000 * scale  =>  True        (in particular the exact case q = 0)
    |q| >= 4 eps * scale     =>  False
proved on the real body with eps a SYMBOLIC real in (0, 1e-5] that is installed
only behind get_eps() (so a stale import-time copy of the tolerance breaks the
proof - C19's reads clause).  From it follows the exact contract "admitted =>
(result <=> denotation)" which every caller sees.
"""
from fractions import Fraction

from g3dvc.runner import Group
from g3dvc.sym import Sym, SymBool, F, And, Or, Not, Implies, Iff
from g3dvc import spec as SP
from g3dvc import sym as S
from contracts import common as C

PROPERTY = "C05"
LEVEL = "proof"
MANIFEST = dict(
    text=("Deductive proof of the tolerance contract of every flat membership predicate on the real bodies with a symbolic eps: Point in Plane / Segment / HalfLine, Vector.parallel (hence Point in Line), Vector.orthogonal, "
          "Vector/Point ==: 'exact (or within eps/1000) => True, violated by the 4 eps margin => False', boundary points (end points, t = 0, t = 1) in the exact-true region; from these the exact contracts "
          "'admitted => (x in S <=> denotation)' used everywhere else. Line in Plane and the composite cases Segment in Line/Plane/Segment/HalfLine, HalfLine in Line/Plane are proved against universal witnesses "
          "(True => every point contained; False => a named point of x is outside)."),
    note=("A1, A5. Shape bounds: Point in ConvexPolygon is proved for n = 3..8 vertices and Point in ConvexPolyhedron for F = 4..8, 10, 12 opaque faces (centre, outward unit normal), against the half-plane / half-space denotation "
          "with symbolic eps; Segment in ConvexPolygon / ConvexPolyhedron by convexity of that denotation; HalfLine in HalfLine and the forward direction of ConvexPolygon in Plane. ConvexPolygon in ConvexPolyhedron, the converse of ConvexPolygon in Plane "
          "and larger shapes are covered by the labelled bounded stand-in (membership catalogue with exact oracle), not by proof."),
    technique='contract-based deductive verification of the membership predicates with symbolic eps (tolerance contracts; z3 / cvc5, ghost scalars) + labelled bounded membership catalogue against exact containment',
    design_ref="DESIGN.md section 9 (C05), section 4",
)
EXPLANATION = "tolerance predicates proved with symbolic eps (SCALAR world, ghost scalars for |u|^2, u.v); composite membership over symbolic coordinates"
BOUNDED_ONLY = ["Geometry3D.geometry.polyhedron:ConvexPolyhedron.__contains__(ConvexPolygon)", "Geometry3D.geometry.polygon:ConvexPolygon.in_ (converse direction)"]
TRUSTED = ["shape bound: polygons with 3..6 vertices, polyhedra with 4..6 opaque faces (Point membership); flat types carry no bound"]
ASSUMES = ["A1", "A2", "A5", "A6"]
T_GET_EPS = "Geometry3D.utils.constant:get_eps"


def stub_get_eps():
    vc = S.engine()
    vc.hit("get_eps")
    return vc.real("eps")


def eps_of(vc):
    eps = vc.real("eps")
    if vc.symbolic:
        vc.assume(And(eps > 0, eps <= Fraction(1, 10 ** 5)), "0 < eps <= 1e-5 (live tolerance)")
    return eps


def small(q, eps):
    """|q| <= eps/1000"""
    return And(q <= eps / 1000, q >= -eps / 1000)


def big(q, eps):
    """|q| >= 4 eps"""
    return Or(q >= 4 * eps, q <= -4 * eps)


def rbool(r):
    return F(r) if isinstance(r, SymBool) else bool(r)


def _tol(vc, out, name, true_when, false_when, probe=True):
    vc.ensure("%s does not raise" % name, out.returned)
    if not out.returned:
        vc.note(repr(out.value))
        return None
    rf = rbool(out.value)
    vc.ensure("%s: within eps/1000 (or exact) => True" % name, Implies(true_when, rf))
    vc.ensure("%s: violated by >= 4 eps margin => False" % name, Implies(false_when, Not(rf)))
    if vc.symbolic and probe:
        vc.ensure("probe: %s is constantly True" % name, rf, kind="must-fail")
        vc.ensure("probe: %s is constantly False" % name, Not(rf), kind="must-fail")
    return rf


# -- Vector / Point equality, orthogonal -----------------------------------------

def h_vector_eq(vc):
    eps = eps_of(vc)
    u, v = C.V(vc, "u"), C.V(vc, "v")
    d = SP.sub(SP.vec(u), SP.vec(v))
    before = (vc.snapshot(u), vc.snapshot(v))
    out = vc.call(lambda: u == v)
    _tol(vc, out, "Vector.__eq__", And(*[small(x, eps) for x in d]), Or(*[big(x, eps) for x in d]))
    vc.ensure("frame: operands unchanged", (vc.snapshot(u), vc.snapshot(v)) == before)


def h_point_eq(vc):
    g = C.G()
    eps = eps_of(vc)
    p, q = C.P(vc, "p"), C.P(vc, "q")
    d = SP.sub(SP.vec(p), SP.vec(q))
    before = (vc.snapshot(p), vc.snapshot(q))
    out = vc.call(lambda: p == q)
    _tol(vc, out, "Point.__eq__", And(*[small(x, eps) for x in d]), Or(*[big(x, eps) for x in d]))
    for foreign in (3, "p", None, (1, 2, 3), g.Vector(1, 2, 3), g.Line(g.Point(0, 0, 0), g.Vector(1, 0, 0))):
        out = vc.call(lambda: p == foreign)
        vc.ensure("Point == %s is False" % type(foreign).__name__, out.returned and out.value is False)
        out = vc.call(lambda: p != foreign)
        vc.ensure("Point != %s is True" % type(foreign).__name__, out.returned and out.value is True)
    vc.ensure("frame: operands unchanged", (vc.snapshot(p), vc.snapshot(q)) == before)


def h_orthogonal(vc):
    eps = eps_of(vc)
    u, v = C.V(vc, "u"), C.V(vc, "v")
    d = SP.dot(SP.vec(u), SP.vec(v))
    out = vc.call(u.orthogonal, v)
    _tol(vc, out, "Vector.orthogonal", small(d, eps), big(d, eps))


def h_parallel(vc):
    """Vector.parallel: u x v = 0 => True;  u, v, u-v not tiny and |u x v|^2 >= 8 eps |u|^2 |v| => False"""
    eps = eps_of(vc)
    u, v = C.V(vc, "u"), C.V(vc, "v")
    uv, vv = SP.vec(u), SP.vec(v)
    cr = SP.cross(uv, vv)
    A, B, c = SP.norm2(uv), SP.norm2(vv), SP.dot(uv, vv)
    X = SP.norm2(cr)
    if vc.symbolic:
        vc.hint("Lagrange", A * B - c * c == cr[0] * cr[0] + cr[1] * cr[1] + cr[2] * cr[2])
        for i in range(3):
            vc.hint("|u|^2 >= u%d^2" % i, A >= uv[i] * uv[i])
            vc.hint("|v|^2 >= v%d^2" % i, B >= vv[i] * vv[i])
        vc.ghost(A, B, c, cr[0], cr[1], cr[2])
        lv = vc.sqrt(Sym(B), True)
    else:
        lv = float(B) ** 0.5
    out = vc.call(u.parallel, v)
    notiny = lambda w: Or(*[big(x, eps) for x in w])
    _tol(vc, out, "Vector.parallel", SP.vzero(cr), And(notiny(uv), notiny(vv), notiny(SP.sub(uv, vv)), X >= 8 * eps * A * lv))


def h_parallel_admission(vc):
    """the caller-facing admission (relative margin 1e-3 on the sine, |v| >= 1/64, vectors not tiny) implies the margin of the tolerance contract"""
    eps = eps_of(vc)
    a, b, X = vc.real("a"), vc.real("b"), vc.real("X")  # |u|, |v|, |u x v|^2 as ghost scalars
    vc.assume(And(a >= 0, b >= Fraction(1, 64), eps <= Fraction(1, 10 ** 9)), "|v| >= 1/64, eps <= 1e-9")
    vc.ensure("sin^2 >= 1e-6 and |v| >= 1/64 => |u x v|^2 >= 8 eps |u|^2 |v|", Implies(X >= Fraction(1, 10 ** 6) * a * a * b * b, X >= 8 * eps * a * a * b))


# -- Point in flat containers -------------------------------------------------------

def h_plane_contains_point(vc):
    eps = eps_of(vc)
    p = C.plane(vc, "p")
    x = C.P(vc, "x")
    q = SP.dot(SP.sub(SP.vec(x), SP.vec(p.p)), SP.vec(p.n))
    before = (vc.snapshot(p), vc.snapshot(x))
    out = vc.call(lambda: x in p)
    _tol(vc, out, "Point in Plane", small(q, eps), big(q, eps))
    vc.ensure("frame: operands unchanged", (vc.snapshot(p), vc.snapshot(x)) == before)


def h_line_contains_point(vc):
    """Line.__contains__(Point) is Vector.parallel(x - sv, dv): against parallel's exact contract the result is the denotation"""
    l = C.line(vc, "l")
    x = C.P(vc, "x")
    before = (vc.snapshot(l), vc.snapshot(x))
    out = vc.call(lambda: x in l)
    vc.ensure("Point in Line does not raise", out.returned)
    if out.returned:
        vc.ensure("Point in Line <=> (x - sv) x dv = 0", Iff(rbool(out.value), SP.on_line(SP.vec(x), SP.vec(l.sv), SP.vec(l.dv))))
    vc.ensure("frame: operands unchanged", (vc.snapshot(l), vc.snapshot(x)) == before)


def h_segment_contains_point(vc):
    """Segment.__contains__(Point) with the carrier test by its exact contract, eps symbolic"""
    eps = eps_of(vc)
    s = C.segment(vc, "s")
    x = C.P(vc, "x")
    a, b, xv = SP.vec(s.start_point), SP.vec(s.end_point), SP.vec(x)
    e, d = SP.sub(b, a), SP.sub(xv, a)
    D, L, L1 = SP.dot(d, e), SP.norm2(e), SP.norm2(d)
    on = SP.on_line(xv, a, e)
    if vc.symbolic:
        for i in range(3):
            vc.hint("|e|^2 >= e%d^2" % i, L >= e[i] * e[i])
            vc.hint("|d|^2 >= d%d^2" % i, L1 >= d[i] * d[i])
        vc.hint("Cauchy-Schwarz via Lagrange", L * L1 - D * D == SP.norm2(SP.cross(d, e)))
        vc.ghost(D, L, L1)
    before = (vc.snapshot(s), vc.snapshot(x))
    out = vc.call(lambda: x in s)
    exact_in = And(on, D >= 0, D <= L)
    # outside by a margin: off the carrier, or parameter t = D/L <= -4 eps or >= 1 + 4 eps, and not within tolerance of the start point
    far_from_start = Or(*[big(c, eps) for c in d])
    outside = And(far_from_start, Or(Not(on), D <= -4 * eps * L, D >= (1 + 4 * eps) * L))
    _tol(vc, out, "Point in Segment", exact_in, outside)
    vc.ensure("frame: operands unchanged", (vc.snapshot(s), vc.snapshot(x)) == before)


def h_halfline_contains_point(vc):
    eps = eps_of(vc)
    h = C.halfline(vc, "h")
    x = C.P(vc, "x")
    p, v, xv = SP.vec(h.point), SP.vec(h.vector), SP.vec(x)
    d = SP.sub(xv, p)
    D = SP.dot(d, v)
    on = SP.on_line(xv, p, v)
    before = (vc.snapshot(h), vc.snapshot(x))
    out = vc.call(lambda: x in h)
    _tol(vc, out, "Point in HalfLine", And(on, D >= 0), Or(Not(on), D <= -4 * eps))
    vc.ensure("frame: operands unchanged", (vc.snapshot(h), vc.snapshot(x)) == before)


def h_plane_contains_line(vc):
    g = C.G()
    p = C.plane(vc, "p")
    l = C.line(vc, "l")
    sv, dv, pp, n = SP.vec(l.sv), SP.vec(l.dv), SP.vec(p.p), SP.vec(p.n)
    t = vc.real("t")
    before = (vc.snapshot(p), vc.snapshot(l))
    out = vc.call(lambda: l in p)
    vc.ensure("Line in Plane does not raise", out.returned)
    if out.returned:
        rf = rbool(out.value)
        vc.ensure("Line in Plane => every point of the line is in the plane", Implies(rf, SP.on_plane(SP.add(sv, SP.scale(t, dv)), pp, n)))
        vc.ensure("not (Line in Plane) => some point of the line is off the plane", Implies(Not(rf), Or(Not(SP.on_plane(sv, pp, n)), Not(SP.on_plane(SP.add(sv, dv), pp, n)))))
    vc.ensure("frame: operands unchanged", (vc.snapshot(p), vc.snapshot(l)) == before)


# -- composite membership (both end points / origin and direction) ----------------

def h_segment_in_flat(kind):
    def h(vc):
        g = C.G()
        s = C.segment(vc, "s")
        cont = {"Line": C.line, "Plane": C.plane, "Segment": C.segment, "HalfLine": C.halfline}[kind](vc, "c")
        a, b = SP.vec(s.start_point), SP.vec(s.end_point)
        t = vc.real("t")
        x = SP.add(a, SP.scale(t, SP.sub(b, a)))
        vc.assume(And(t >= 0, t <= 1), "x = a + t (b - a) is an arbitrary point of the segment")
        before = (vc.snapshot(s), vc.snapshot(cont))
        out = vc.call(lambda: s in cont)
        vc.ensure("Segment in %s does not raise" % kind, out.returned)
        if out.returned:
            rf = rbool(out.value)
            vc.ensure("Segment in %s => every point of the segment is in it" % kind, Implies(rf, C.flat_member(x, cont)))
            vc.ensure("not (Segment in %s) => an end point is outside" % kind, Implies(Not(rf), Or(Not(C.flat_member(a, cont)), Not(C.flat_member(b, cont)))))
        vc.ensure("frame: operands unchanged", (vc.snapshot(s), vc.snapshot(cont)) == before)

    return h


def h_halfline_in_flat(kind):
    def h(vc):
        g = C.G()
        hl = C.halfline(vc, "h")
        cont = {"Line": C.line, "Plane": C.plane}[kind](vc, "c")
        p, v = SP.vec(hl.point), SP.vec(hl.vector)
        t = vc.real("t")
        vc.assume(t >= 0, "x = p + t v, t >= 0, is an arbitrary point of the half-line")
        x = SP.add(p, SP.scale(t, v))
        out = vc.call(lambda: hl in cont)
        vc.ensure("HalfLine in %s does not raise" % kind, out.returned)
        if out.returned:
            rf = rbool(out.value)
            vc.ensure("HalfLine in %s => every point of the half-line is in it" % kind, Implies(rf, C.flat_member(x, cont)))
            vc.ensure("not (HalfLine in %s) => the origin or the point p + v is outside" % kind, Implies(Not(rf), Or(Not(C.flat_member(p, cont)), Not(C.flat_member(SP.add(p, v), cont)))))

    return h


def exact_stubs():
    C.remember_originals()
    return [(C.T_LINE_IN, C.x_line_contains_point), (C.T_PLANE_IN, C.x_plane_contains_point), (C.T_PAR, C.x_parallel), (C.T_ORT, C.x_orthogonal),
            (C.T_VEQ, C.x_vector_eq), (C.T_PEQ, C.x_point_eq), (C.T_SEG_IN, C.x_segment_contains_point), (C.T_HL_IN, C.x_halfline_contains_point)]


def tolerance_groups():
    """the tolerance contracts of the flat predicates (shared with C08 and C19)"""
    eps_stub = [(T_GET_EPS, stub_get_eps)]
    V = "Geometry3D.utils.vector:Vector."
    gs = [
        Group("Vector.__eq__[tolerance, symbolic eps]", h_vector_eq, [V + "__eq__"], stubs=eps_stub, expect_hits=["get_eps"], world="SCALAR", timeout_s=120),
        Group("Point.__eq__[tolerance, symbolic eps]", h_point_eq, ["Geometry3D.geometry.point:Point.__eq__"], stubs=eps_stub, expect_hits=["get_eps"], world="SCALAR", timeout_s=120),
        Group("Vector.orthogonal[tolerance, symbolic eps]", h_orthogonal, [V + "orthogonal"], stubs=eps_stub, expect_hits=["get_eps"], world="SCALAR", timeout_s=120),
        Group("Vector.parallel[tolerance, symbolic eps]", h_parallel, [V + "parallel"], stubs=eps_stub + [(C.T_LENGTH, C.x_length)], expect_hits=["get_eps", "Vector.length"],
              world="SCALAR", timeout_s=600, prove_ms=8000),
        Group("Vector.parallel[admission lemma]", h_parallel_admission, [V + "parallel"], world="SCALAR", timeout_s=120),
        Group("Point in Plane[tolerance, symbolic eps]", h_plane_contains_point, ["Geometry3D.geometry.plane:Plane.__contains__"], stubs=eps_stub, expect_hits=["get_eps"],
              world="SCALAR", timeout_s=120),
        Group("Point in Segment[tolerance, symbolic eps]", h_segment_contains_point, ["Geometry3D.geometry.segment:Segment.__contains__"],
              stubs=eps_stub + [(C.T_LINE_IN, C.x_line_contains_point), (C.T_LENGTH, C.x_length)], expect_hits=["get_eps", "Line.__contains__"], world="SCALAR", timeout_s=600, prove_ms=8000),
        Group("Point in HalfLine[tolerance, symbolic eps]", h_halfline_contains_point, ["Geometry3D.geometry.halfline:HalfLine.__contains__"],
              stubs=eps_stub + [(C.T_LINE_IN, C.x_line_contains_point)], expect_hits=["get_eps", "Line.__contains__"], world="SCALAR", timeout_s=300),
    ]
    return gs


def groups(tier):
    C.remember_originals()
    gs = tolerance_groups()
    ex = exact_stubs()
    gs.append(Group("Point in Line[delegation]", h_line_contains_point, ["Geometry3D.geometry.line:Line.__contains__"], stubs=[(C.T_PAR, C.x_parallel)], expect_hits=["Vector.parallel"],
                    world="COORD", timeout_s=120))
    gs.append(Group("Line in Plane", h_plane_contains_line, ["Geometry3D.geometry.plane:Plane.__contains__", "Geometry3D.calc.angle:parallel"],
                    stubs=[(C.T_PLANE_IN, C.x_plane_contains_point), (C.T_ORT, C.x_orthogonal)], world="COORD", timeout_s=120))
    for kind in ("Line", "Plane", "Segment", "HalfLine"):
        gs.append(Group("Segment in %s" % kind, h_segment_in_flat(kind), ["Geometry3D.geometry.segment:Segment.in_", "Geometry3D.geometry.%s:%s.__contains__" % (kind.lower(), kind)],
                        stubs=ex, world="COORD", timeout_s=300))
    for kind in ("Line", "Plane"):
        gs.append(Group("HalfLine in %s" % kind, h_halfline_in_flat(kind), ["Geometry3D.geometry.halfline:HalfLine.in_"], stubs=ex, world="COORD", timeout_s=300))
    gs += polygon_groups(tier)
    return gs


def bounded_assigned_segments(seed, n):
    """Segment.__setitem__ is part of the public API ("set the i point of the segment"): a segment one of whose end points was assigned
    answers membership / containment questions like the segment freshly built from its end points"""
    from fractions import Fraction as Fr
    from g3dvc import oracle as O
    from g3dvc import catalogue as K
    from g3dvc import bounded as B
    from g3dvc.engine import load_repo
    g = load_repo()
    acc = B.Acc()
    rng = K.make_rng(seed + 55)
    num = lambda t: [O.to_number(c, "float") for c in t]
    for it in range(n):
        (sg,) = list(K.flat_objects("Segment", rng, 1))
        R, t, k = K.random_pose(rng)
        if it % 3:
            sg = K.transform(sg, R, t, k)
        a, b = sg[1], sg[2]
        d = K.lattice_dir(rng)
        c = O.add(a, d) if it % 2 else O.add(b, d)
        idx = 1 if it % 2 else 0
        new = ("Segment", a, c) if idx == 1 else ("Segment", c, b)
        if new[1] == new[2] or O.affine_rank([a, b, c]) < 2:
            acc.skipped += 1
            continue
        klass = "end point %d assigned" % idx
        acc.case(klass)
        case = dict(segment=B.ser(sg), index=idx, value=B.ser(("Point", c)))
        try:
            s_ = g.Segment(g.Point(*num(a)), g.Point(*num(b)))
            s_[idx] = g.Point(*num(c))
            fresh = O.to_lib(new, "float")
        except Exception as e:
            acc.fail(klass, "construction / assignment raised %r" % (e,), case)
            continue
        mid_new = tuple((x + y) / 2 for x, y in zip(new[1], new[2]))
        mid_old = tuple((x + y) / 2 for x, y in zip(a, b))
        for q in (mid_new, mid_old, new[1], new[2], O.add(mid_new, d)):
            exp = O.contains(new, q)
            qp = g.Point(*num(q))
            got = B._call(lambda: qp in s_)
            if got[0] == "exc" or bool(got[1]) != exp:
                acc.fail(klass, "after s[%d] = p: Point %s in s is %r, exact containment in the segment between its end points %r" % (idx, [float(x) for x in q], got[1], exp), case)
                break
        half = ("Segment", mid_new, new[2])
        got = B._call(lambda: O.to_lib(half, "float") in s_)
        if got[0] == "exc" or got[1] is not True:
            acc.fail(klass, "after s[%d] = p: the half of the segment between its end points is not contained in it (%r)" % (idx, got[1]), case)
        eq = B._call(lambda: (s_ == fresh, hash(s_) == hash(fresh)))
        if eq[0] == "exc" or eq[1] != (True, True):
            acc.fail(klass, "after s[%d] = p: == / hash against the freshly built segment: %r" % (idx, eq[1]), case)
        acc.sample(dict(klass=klass, **case))
    return acc.result()


def bounded(tier, seed):
    from g3dvc import bounded as B
    return [("membership catalogue", B.membership, (seed, 48 if tier == "quick" else 600), 3000),
            ("segments with an assigned end point", bounded_assigned_segments, (seed, 60 if tier == "quick" else 600), 900)]


def replay_case(case):
    from g3dvc import bounded as B
    if "index" in (case or {}):
        r = bounded_assigned_segments(0, 60)
        return dict(fails=bool(r["failures"]), observed=[f["what"] for f in r["failures"][:2]])
    return B.replay_membership(case)


# ---------------------------------------------------------------------------
# Point / Segment in ConvexPolygon and ConvexPolyhedron (per shape), remaining composite cases
# ---------------------------------------------------------------------------

def h_point_in_polygon(n):
    def h(vc):
        g = C.G()
        eps = eps_of(vc)
        pg = C.polygon(vc, "K", n, convex=False)  # the contract is the half-plane denotation itself; convexity is not needed for it
        x = C.P(vc, "x")
        xv = SP.vec(x)
        nv, pp = SP.vec(pg.plane.n), SP.vec(pg.plane.p)
        pts = [SP.vec(p) for p in pg.points]
        qs = [SP.dot(nv, SP.cross(SP.sub(pts[(i + 1) % n], pts[i]), SP.sub(xv, pts[i]))) for i in range(n)]
        before = (vc.snapshot(pg), vc.snapshot(x))
        out = vc.call(lambda: x in pg)
        if vc.symbolic:
            ks = vc.log.get("normalized", [])
            if ks:
                k = ks[0][0]
                vc.hint("k = 1 for a unit normal", Implies(And(k > 0, k * k * SP.norm2(nv) == 1, SP.norm2(nv) == 1), k == 1))
                for i in range(n):
                    v0 = SP.sub(pts[(i + 1) % n], pts[i])
                    code_term = SP.dot(SP.sub(xv, pts[i]), SP.cross(SP.scale(k, nv), v0))
                    vc.hint("scalar triple product, edge %d" % i, code_term == k * qs[i])
        in_plane = SP.dot(SP.sub(xv, pp), nv)
        exact_in = And(in_plane == 0, *[q >= 0 for q in qs]) if vc.symbolic else (SP.eqz(in_plane) and all(SP.gez(q) for q in qs))
        outside = Or(big(in_plane, eps), *[q <= -4 * eps for q in qs]) if vc.symbolic else (abs(in_plane) >= 4 * eps or any(q <= -4 * eps for q in qs))
        _tol(vc, out, "Point in ConvexPolygon[n=%d]" % n, exact_in, outside, probe=(n == 3))
        vc.ensure("frame: operands unchanged", (vc.snapshot(pg), vc.snapshot(x)) == before)

    return h


def h_point_in_polyhedron(F_):
    def h(vc):
        eps = eps_of(vc)
        ph = C.polyhedron_faces(vc, "K", F_)
        x = C.P(vc, "x")
        xv = SP.vec(x)
        qs = [SP.dot(SP.sub(xv, SP.vec(f.center_point)), SP.vec(f.plane.n)) for f in ph.convex_polygons]
        out = vc.call(lambda: x in ph)
        exact_in = And(*[q <= 0 for q in qs]) if vc.symbolic else all(SP.lez(q) for q in qs)
        outside = Or(*[q >= 4 * eps for q in qs]) if vc.symbolic else any(q >= 4 * eps for q in qs)
        _tol(vc, out, "Point in ConvexPolyhedron[F=%d]" % F_, exact_in, outside, probe=(F_ == 4))

    return h


def h_segment_in_convex(kind, size):
    """Segment in ConvexPolygon / ConvexPolyhedron: both end points; by convexity of the half-space denotation every point of the segment"""
    def h(vc):
        g = C.G()
        s = C.segment(vc, "s")
        K_ = C.polygon(vc, "K", size, convex=False) if kind == "ConvexPolygon" else C.polyhedron_faces(vc, "K", size)
        member = (lambda x: C.polygon_member(x, K_)) if kind == "ConvexPolygon" else (lambda x: C.polyhedron_member(x, K_))
        a, b = SP.vec(s.start_point), SP.vec(s.end_point)
        t = vc.real("t")
        vc.assume(And(t >= 0, t <= 1), "x = a + t (b - a) is an arbitrary point of the segment")
        x = SP.add(a, SP.scale(t, SP.sub(b, a)))
        if vc.symbolic:
            # every constraint g of the denotation is affine: g(a + t (b - a)) = (1 - t) g(a) + t g(b)
            if kind == "ConvexPolygon":
                nv, pp = SP.vec(K_.plane.n), SP.vec(K_.plane.p)
                pts = [SP.vec(p) for p in K_.points]
                gs_ = [lambda y: SP.dot(SP.sub(y, pp), nv)] + [(lambda y, i=i: SP.dot(nv, SP.cross(SP.sub(pts[(i + 1) % len(pts)], pts[i]), SP.sub(y, pts[i])))) for i in range(len(pts))]
            else:
                gs_ = [(lambda y, f=f: SP.dot(SP.sub(y, SP.vec(f.center_point)), SP.vec(f.plane.n))) for f in K_.convex_polygons]
            ghosts = []
            for i, gfun in enumerate(gs_):
                vc.hint("constraint %d is affine along the segment" % i, gfun(x) == (1 - t) * gfun(a) + t * gfun(b))
                ghosts += [gfun(x), gfun(a), gfun(b)]
            vc.ghost(*ghosts)
        out = vc.call(lambda: s in K_)
        vc.ensure("Segment in %s does not raise" % kind, out.returned)
        if out.returned:
            rf = rbool(out.value)
            vc.ensure("Segment in %s => every point of the segment is in it (convexity)" % kind, Implies(rf, member(x)))
            vc.ensure("not (Segment in %s) => an end point is outside" % kind, Implies(Not(rf), Or(Not(member(a)), Not(member(b)))))
        else:
            vc.note(repr(out.value))

    return h


def x_polygon_contains_point(self, other):
    g = C.G()
    if isinstance(other, g.Point):
        vc = S.engine()
        vc.hit("ConvexPolygon.__contains__")
        vc.admit(True, "Point in ConvexPolygon: in-plane test and every edge test exact or violated by 4 eps", add=False)
        return SymBool(C.polygon_member(SP.vec(other), self))
    return ORIG_POLY["polygon"](self, other)


def x_polyhedron_contains_point(self, other):
    g = C.G()
    if isinstance(other, g.Point):
        vc = S.engine()
        vc.hit("ConvexPolyhedron.__contains__")
        vc.admit(True, "Point in ConvexPolyhedron: every face test exact or violated by 4 eps", add=False)
        return SymBool(C.polyhedron_member(SP.vec(other), self))
    return ORIG_POLY["polyhedron"](self, other)


ORIG_POLY = {}


def h_halfline_in_halfline(vc):
    g = C.G()
    a = C.halfline(vc, "a")  # container
    b = C.halfline(vc, "b")
    p, v, q, w = SP.vec(a.point), SP.vec(a.vector), SP.vec(b.point), SP.vec(b.vector)
    vw = SP.dot(v, w)
    if vc.symbolic:
        vc.admit(Or(vw == 0, vw >= C.ADM * C.EPS0, vw <= -C.ADM * C.EPS0), "HalfLine in HalfLine: v.w = 0 or |v.w| >= 4 eps")
    else:
        vc.admit(vw == 0 or abs(vw) >= float(C.ADM * C.EPS0), "HalfLine in HalfLine: v.w = 0 or |v.w| >= 4 eps")
    t = vc.real("t")
    vc.assume(t >= 0, "x = q + t w, t >= 0, is an arbitrary point of b")
    x = SP.add(q, SP.scale(t, w))
    out = vc.call(lambda: b in a)
    vc.ensure("HalfLine in HalfLine does not raise", out.returned)
    if out.returned:
        rf = rbool(out.value)
        vc.ensure("HalfLine in HalfLine => every point of it is contained", Implies(rf, SP.on_halfline(x, p, v)))
        # a point of b that escapes: its origin, the point q + w (off the carrier), or far along an opposite direction
        D = SP.dot(SP.sub(q, p), v)
        neg = bool(vw < 0)
        tfar = ((D * D + 1) / (-vw)) if neg else 1  # for opposite directions the point q + tfar w has (x - p).v = D - (D^2 + 1) < 0
        far = SP.add(q, SP.scale(tfar, w))
        vc.ensure("not (HalfLine in HalfLine) => its origin, q + w or a far point of it is outside",
                  Implies(Not(rf), Or(Not(SP.on_halfline(q, p, v)), Not(SP.on_halfline(SP.add(q, w), p, v)), Not(SP.on_halfline(far, p, v)))))


def h_polygon_in_plane(vc):
    g = C.G()
    pg = C.polygon(vc, "K", 3, convex=True)
    pl = C.plane(vc, "E")
    pp, n = SP.vec(pl.p), SP.vec(pl.n)
    pts = [SP.vec(p) for p in pg.points]
    kn = SP.vec(pg.plane.n)
    if vc.symbolic:
        cr = SP.cross(SP.sub(pts[1], pts[0]), SP.sub(pts[2], pts[0]))
        for i in range(3):
            vc.hint("BAC-CAB %d (normals orthogonal to both edges are parallel to their cross product)" % i,
                    SP.cross(cr, n)[i] == SP.sub(pts[2], pts[0])[i] * SP.dot(SP.sub(pts[1], pts[0]), n) - SP.sub(pts[1], pts[0])[i] * SP.dot(SP.sub(pts[2], pts[0]), n))
            vc.hint("BAC-CAB' %d" % i,
                    SP.cross(cr, kn)[i] == SP.sub(pts[2], pts[0])[i] * SP.dot(SP.sub(pts[1], pts[0]), kn) - SP.sub(pts[1], pts[0])[i] * SP.dot(SP.sub(pts[2], pts[0]), kn))
    out = vc.call(lambda: pg in pl)
    vc.ensure("ConvexPolygon in Plane does not raise", out.returned)
    if out.returned:
        rf = rbool(out.value)
        x = C.witness(vc, "x")
        vc.ensure("ConvexPolygon in Plane => every point of the polygon's plane (hence of the polygon) is in it", Implies(And(rf, SP.on_plane(x, SP.vec(pg.plane.p), kn)), SP.on_plane(x, pp, n)))
        # the converse (all vertices in E => True) needs 'three non-collinear points determine the plane'; it is covered by the bounded stand-in only
    else:
        vc.note(repr(out.value))


def polygon_groups(tier):
    C.remember_originals()
    g = C.G()
    ORIG_POLY.setdefault("polygon", g.ConvexPolygon.__dict__["__contains__"])
    ORIG_POLY.setdefault("polyhedron", g.ConvexPolyhedron.__dict__["__contains__"])
    eps_stub = [(T_GET_EPS, stub_get_eps)]
    gs = []
    sizes = (3, 4, 5, 6, 7, 8)
    for n in sizes:
        gs.append(Group("Point in ConvexPolygon[n=%d, tolerance, symbolic eps]" % n, h_point_in_polygon(n), ["Geometry3D.geometry.polygon:ConvexPolygon.__contains__"],
                        stubs=eps_stub + [(C.T_PLANE_IN, C.x_plane_contains_point), (C.T_NORMALIZED, C.x_normalized)], expect_hits=["get_eps", "Plane.__contains__"],
                        world="COORD", timeout_s=900, prove_ms=30000))
    for F_ in (4, 5, 6, 7, 8, 10, 12):
        gs.append(Group("Point in ConvexPolyhedron[F=%d opaque faces, tolerance, symbolic eps]" % F_, h_point_in_polyhedron(F_), ["Geometry3D.geometry.polyhedron:ConvexPolyhedron.__contains__"],
                        stubs=eps_stub, expect_hits=["get_eps"], world="COORD", timeout_s=600, prove_ms=30000))
    ex = exact_stubs() + [("Geometry3D.geometry.polygon:ConvexPolygon.__contains__", x_polygon_contains_point), ("Geometry3D.geometry.polyhedron:ConvexPolyhedron.__contains__", x_polyhedron_contains_point)]
    for kind, size in (("ConvexPolygon", 3), ("ConvexPolygon", 5), ("ConvexPolyhedron", 4), ("ConvexPolyhedron", 6)):
        gs.append(Group("Segment in %s[%d]" % (kind, size), h_segment_in_convex(kind, size), ["Geometry3D.geometry.%s:%s.__contains__" % ("polygon" if kind == "ConvexPolygon" else "polyhedron", kind)],
                        stubs=ex, world="COORD", timeout_s=600, prove_ms=30000))
    gs.append(Group("HalfLine in HalfLine", h_halfline_in_halfline, ["Geometry3D.geometry.halfline:HalfLine.__contains__"], stubs=exact_stubs(), world="COORD", timeout_s=600, prove_ms=30000))
    gs.append(Group("ConvexPolygon in Plane", h_polygon_in_plane, ["Geometry3D.geometry.polygon:ConvexPolygon.in_", "Geometry3D.geometry.plane:Plane.__contains__"],
                    stubs=exact_stubs(), world="COORD", timeout_s=600, prove_ms=30000))
    return gs


def h_polygon_in_polyhedron(n, F_):
    """ConvexPolygon in ConvexPolyhedron: all vertices; by convexity of the half-space denotation every convex combination of the vertices"""
    def h(vc):
        g = C.G()
        pg = C.polygon(vc, "K", n, convex=False)
        ph = C.polyhedron_faces(vc, "B", F_)
        pts = [SP.vec(p) for p in pg.points]
        lam = [vc.real("lam%d" % i) for i in range(n)]
        for l in lam:
            vc.assume(l >= 0, "convex combination: weights >= 0")
        vc.assume(SP.eq(sum(lam), 1), "convex combination: weights sum to 1")
        x = tuple(sum(lam[i] * pts[i][k] for i in range(n)) for k in range(3))
        if vc.symbolic:
            ghosts = []
            for f in ph.convex_polygons:
                gfun = lambda y, f=f: SP.dot(SP.sub(y, SP.vec(f.center_point)), SP.vec(f.plane.n))
                vc.hint("face constraint is affine", gfun(x) == sum(lam[i] * gfun(pts[i]) for i in range(n)) + (1 - sum(lam)) * SP.dot(SP.neg(SP.vec(f.center_point)), SP.vec(f.plane.n)))
                ghosts += [gfun(x)] + [gfun(p) for p in pts] + [SP.dot(SP.neg(SP.vec(f.center_point)), SP.vec(f.plane.n))]
            vc.ghost(*ghosts)
        out = vc.call(lambda: pg in ph)
        vc.ensure("ConvexPolygon in ConvexPolyhedron does not raise", out.returned)
        if out.returned:
            rf = rbool(out.value)
            vc.ensure("ConvexPolygon in ConvexPolyhedron <=> every vertex is in it", Iff(rf, And(*[C.polyhedron_member(p, ph) for p in pts])))
            vc.ensure("ConvexPolygon in ConvexPolyhedron => every convex combination of its vertices (every point of the polygon) is in it", Implies(rf, C.polyhedron_member(x, ph)))
        else:
            vc.note(repr(out.value))

    return h


_polygon_groups_core = polygon_groups


def polygon_groups(tier):
    gs = _polygon_groups_core(tier)
    ex = exact_stubs() + [("Geometry3D.geometry.polygon:ConvexPolygon.__contains__", x_polygon_contains_point), ("Geometry3D.geometry.polyhedron:ConvexPolyhedron.__contains__", x_polyhedron_contains_point)]
    for n, F_ in ((3, 4), (4, 6), (5, 5)):
        gs.append(Group("ConvexPolygon[%d] in ConvexPolyhedron[%d]" % (n, F_), h_polygon_in_polyhedron(n, F_), ["Geometry3D.geometry.polyhedron:ConvexPolyhedron.__contains__"], stubs=ex,
                        world="COORD", timeout_s=600, prove_ms=30000))
    return gs
