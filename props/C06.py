"""C06 - length, area and volume equal the exact measures."""
from fractions import Fraction

from g3dvc.runner import Group
from g3dvc.sym import Sym, SymBool, F, And, Or, Not, Implies, Iff
from g3dvc import spec as SP
from g3dvc import sym as S
from contracts import common as C

PROPERTY = "C06"
LEVEL = "other"
ASSUMES = ["A1", "A2", "A4", "A5", "A6"]
MANIFEST = dict(
    text=("Mixed. PROVED over all real coordinates: Segment.length / Point.distance (r >= 0, r^2 = |B - A|^2); get_triangle_area equals |AB x AC| / 2 for every triangle and never hits a domain error (Heron's radicand is "
          "identically |AB x AC|^2 / 4 >= 0); Pyramid.height = |(apex - p0).n|, Pyramid.volume = h A / 3 within 1e-9 relative (the code's 1/3 is a double), and volume(pyramid) agrees with pyramid.volume() (height through distance(Point, Plane) by its contract); "
          "volume() of other types raises; ConvexPolygon.length = sum of the edge lengths of the cyclic vertex list and ConvexPolygon.area = n.(sum p_i x p_(i+1))/2 for n = 3..6 (thorough: ..8) under the polygon invariant "
          "(proof script: fan edges in the plane, fan normals parallel to n by BAC-CAB, |w| = w.n by Lagrange, the centre is left of every edge as the mean of the all-pairs edge tests, so every fan triangle is positively oriented and the fan sum is the shoelace sum); ConvexPolyhedron.volume / area / length on a tetrahedron with symbolic vertices, faces given in arbitrary orientation, the body built by the real constructor: volume = |det(e1, e2, e3)| / 6 (relative 1e-9), area = sum of the four face areas, length = sum of the six edge lengths, body unchanged (callees by contract: triangle area, Pyramid.volume, Vector.length / normalized). "
          "BOUNDED (labelled, not counted as proved): ConvexPolygon.length/area for other orderings / larger n and ConvexPolyhedron.length/area/volume on catalogue polygons (3-8 vertices) and polyhedra (tetrahedra, boxes, prisms, pyramids, octahedra, hulls) "
          "in oblique poses under vertex permutations, face permutations, face rotations and face orientations, against exact rational cross-product / determinant formulas, relative tolerance 1e-9; volume(x) == x.volume()."),
    note=("The polygon proofs assume the invariant the constructor establishes (C09: proved for n <= 5, bounded above); the polyhedron sums are proved on tetrahedra only (one orientation pattern on every change, five thorough) and bounded beyond. Shape bound n <= 6 (8). A1, A5."),
    technique="contract-based deductive verification of the segment, triangle, pyramid, polygon (n <= 6) and tetrahedron measures (z3 with ghost scalars and proof scripts) + labelled bounded stand-in with exact rational reference for larger polygons and other polyhedra",
    design_ref="DESIGN.md section 9 (C06)",
)
EXPLANATION = "proved: segment length, triangle area (Heron = cross product), pyramid height/volume, volume() dispatch; bounded: polygon and polyhedron sums under all orderings"
BOUNDED_ONLY = ["Geometry3D.geometry.polyhedron:ConvexPolyhedron.length",
                "Geometry3D.geometry.polyhedron:ConvexPolyhedron.area", "Geometry3D.geometry.polyhedron:ConvexPolyhedron.volume"]


def h_segment_length(vc):
    g = C.G()
    s = C.segment(vc, "s")
    a, b = SP.vec(s.start_point), SP.vec(s.end_point)
    before = vc.snapshot(s)
    for lab, f in (("Segment.length()", s.length), ("Point.distance(Point)", lambda: s.start_point.distance(s.end_point))):
        out = vc.call(f)
        vc.ensure("%s does not raise" % lab, out.returned)
        if out.returned:
            r = out.value
            vc.ensure("%s >= 0" % lab, SP.gez(r))
            vc.ensure("%s squared = |B - A|^2" % lab, SP.eq(r * r, SP.norm2(SP.sub(b, a))))
    vc.ensure("frame: segment unchanged", vc.snapshot(s) == before)


def h_triangle_area(vc):
    import importlib
    PG = importlib.import_module("Geometry3D.geometry.polygon")
    pa, pb, pc = C.P(vc, "pa"), C.P(vc, "pb"), C.P(vc, "pc")
    A, B, Cc = SP.vec(pa), SP.vec(pb), SP.vec(pc)
    A2, B2, C2 = SP.norm2(SP.sub(A, B)), SP.norm2(SP.sub(B, Cc)), SP.norm2(SP.sub(Cc, A))  # squared side lengths a^2, b^2, c^2
    cr = SP.cross(SP.sub(B, A), SP.sub(Cc, A))
    X = SP.norm2(cr)
    if vc.symbolic:
        # 2a^2b^2 + 2b^2c^2 + 2c^2a^2 - a^4 - b^4 - c^4 = 4 |AB x AC|^2   (polarisation + Lagrange; a ring identity in the coordinates)
        vc.hint("Heron radicand = |AB x AC|^2 / 4", 2 * A2 * B2 + 2 * B2 * C2 + 2 * C2 * A2 - A2 * A2 - B2 * B2 - C2 * C2 == 4 * X)
        vc.hint("|AB x AC|^2 >= 0", X >= 0)
        vc.ghost(A2, B2, C2, X)
    before = (vc.snapshot(pa), vc.snapshot(pb), vc.snapshot(pc))
    out = vc.call(PG.get_triangle_area, pa, pb, pc)
    vc.ensure("get_triangle_area does not raise (no domain error)", out.returned)
    if out.returned:
        r = out.value
        vc.ensure("area >= 0", SP.gez(r))
        vc.ensure("area^2 = |AB x AC|^2 / 4", SP.eq(4 * r * r, X))
    else:
        vc.note(repr(out.value))
    vc.ensure("frame: points unchanged", (vc.snapshot(pa), vc.snapshot(pb), vc.snapshot(pc)) == before)


class _Poly(object):
    """stand-in for the base polygon of a pyramid: points[0], plane and area() by contract"""


def h_pyramid(vc):
    import importlib
    g = C.G()
    VOL = importlib.import_module("Geometry3D.calc.volume")
    base = g.ConvexPolygon.__new__(g.ConvexPolygon)
    pl = C.plane(vc, "plane")
    p0 = C.P(vc, "p0")
    vc.assume(SP.on_plane(SP.vec(p0), SP.vec(pl.p), SP.vec(pl.n)), "invariant: the polygon's vertices lie in its plane")
    base.points = (p0,)
    base.plane = pl
    area = vc.real("area")
    vc.assume(SP.gez(area), "contract of ConvexPolygon.area: >= 0")
    apex = C.P(vc, "apex")
    h_exact = SP.dot(SP.sub(SP.vec(apex), SP.vec(p0)), SP.vec(pl.n))
    vc.admit(Or(h_exact >= C.ADM * C.EPS0, h_exact <= -C.ADM * C.EPS0) if vc.symbolic else abs(h_exact) >= float(C.ADM * C.EPS0), "apex off the base plane by >= 4 eps")
    out = vc.call(g.Pyramid, base, apex, False)
    vc.ensure("Pyramid(base, apex off the plane) does not raise", out.returned)
    if not out.returned:
        vc.note(repr(out.value))
        return
    pyr = out.value
    base.area = lambda: area  # contract stub of the (bounded-checked) polygon area
    oh = vc.call(pyr.height)
    vc.ensure("height() does not raise", oh.returned)
    if oh.returned:
        h = oh.value
        vc.ensure("height = |(apex - p0).n|", And(SP.gez(h), SP.eq(h * h, h_exact * h_exact)))
        ov = vc.call(pyr.volume)
        vc.ensure("volume() does not raise", ov.returned)
        if ov.returned:
            v = ov.value
            third = h * area / 3
            tol = h * area * Fraction(1, 10 ** 9)
            vc.ensure("volume = h A / 3 (relative 1e-9)", And(SP.gez(v - third + tol), SP.gez(third + tol - v)))
            o2 = vc.call(VOL.volume, pyr)
            vc.ensure("volume(pyramid) does not raise", o2.returned)
            if o2.returned:
                vc.ensure("volume(pyramid) == pyramid.volume()", SP.eq(o2.value, v))
            else:
                vc.note(repr(o2.value))


def groups(tier):
    from props.C01 import coord_stubs
    cs = coord_stubs() + [(C.T_NORMALIZED, C.x_normalized), (C.T_LENGTH, C.x_length), (C.T_ILP, C.x_inter_line_plane)]
    return [
        Group("Segment.length / Point.distance", h_segment_length, ["Geometry3D.geometry.segment:Segment.length", "Geometry3D.geometry.point:Point.distance"], world="COORD", timeout_s=120),
        Group("get_triangle_area = |AB x AC| / 2", h_triangle_area, ["Geometry3D.geometry.polygon:get_triangle_area"], world="SCALAR", timeout_s=300, prove_ms=30000),
        Group("Pyramid.height / volume, volume(pyramid)", h_pyramid, ["Geometry3D.geometry.pyramid:Pyramid.__init__", "Geometry3D.geometry.pyramid:Pyramid.height",
              "Geometry3D.geometry.pyramid:Pyramid.volume", "Geometry3D.calc.volume:volume"], stubs=cs, world="COORD", timeout_s=600, prove_ms=30000),
    ]


def bounded(tier, seed):
    from g3dvc import bounded as B
    n, perms = (16, 3) if tier == "quick" else (60, 12)
    return [("measures of catalogue polygons and polyhedra under permutations / orientations", B.measures, (seed, n, perms), 3000)]


def replay_case(case):
    from g3dvc import bounded as B
    return B.replay_measures(case)


# ---------------------------------------------------------------------------
# ConvexPolygon.length and .area per shape (n vertices), under the polygon invariant (coplanar, unit normal, strictly convex,
# counter-clockwise about the normal for all edge / vertex pairs, centre = vertex mean)
# ---------------------------------------------------------------------------

def x_triangle_area(pa, pb, pc):
    """contract of get_triangle_area (proved above): r >= 0 and 4 r^2 = |(pb - pa) x (pc - pa)|^2"""
    from g3dvc import sym as S
    vc = S.engine()
    vc.hit("get_triangle_area")
    w = SP.cross(SP.sub(SP.vec(pb), SP.vec(pa)), SP.sub(SP.vec(pc), SP.vec(pa)))
    r = vc.fresh("tri")
    vc.assume(r >= 0, "get_triangle_area contract: r >= 0")
    vc.assume(4 * r * r == SP.norm2(w), "get_triangle_area contract: 4 r^2 = |AB x AC|^2")
    vc.record("triangle", (r, w))
    return r


def polygon_measure_harness(n):
    def h(vc):
        g = C.G()
        pg = C.polygon(vc, "K", n, convex=True)
        nv, pp = SP.vec(pg.plane.n), SP.vec(pg.plane.p)
        pts = [SP.vec(p) for p in pg.points]
        c = SP.vec(pg.center_point)
        # perimeter
        out = vc.call(pg.length)
        vc.ensure("length() does not raise", out.returned)
        if out.returned:
            if vc.symbolic:
                exp = sum(vc.sqrt(Sym(SP.norm2(SP.sub(pts[i], pts[(i + 1) % n]))), False) for i in range(n))
                vc.ensure("length() = sum of the n edge lengths of the cyclic vertex list", SP.eq(out.value, exp))
            else:
                exp = sum(float(SP.norm2(SP.sub(pts[i], pts[(i + 1) % n]))) ** 0.5 for i in range(n))
                vc.ensure("length() = sum of the n edge lengths of the cyclic vertex list", abs(out.value - exp) <= 1e-9 * max(1.0, exp))
        else:
            vc.note(repr(out.value))
        # area
        out = vc.call(pg.area)
        vc.ensure("area() does not raise", out.returned)
        if not out.returned:
            vc.note(repr(out.value))
            return
        T = [SP.dot(nv, SP.cross(SP.sub(pts[i], c), SP.sub(pts[(i + 1) % n], c))) for i in range(n)]
        shoelace = SP.dot(nv, tuple(sum(SP.cross(pts[i], pts[(i + 1) % n])[k] for i in range(n)) for k in range(3)))
        if vc.symbolic:
            tri = vc.log.get("triangle", [])
            ok = len(tri) == n
            # (how area() triangulates is not part of the property: a different triangulation - a triangle fast path, a fan from a vertex - is not an error;
            # the script below then does not apply and the final clause is left to the solver / the random search on the real code)
            if not ok:
                vc.note("area() does not sum n fan triangles (%d): proof script not applicable" % len(tri))
            if ok:
                inpl = [SP.dot(SP.sub(p, pp), nv) for p in pts]
                # identify each summed triangle with a fan triangle (centre, p_i, p_(i+1)) whatever the order of summation; a different
                # triangulation is not an error: the script then does not apply and the final clause is left to the solver / random search
                from g3dvc import smt as _smt
                from g3dvc.sym import F as _F
                refs = [SP.cross(SP.sub(pts[i], c), SP.sub(pts[(i + 1) % n], c)) for i in range(n)]
                match = {}
                for k_, (r_, w_) in enumerate(tri):
                    for i in range(n):
                        if i in match.values():
                            continue
                        if _smt.prove(_F(SP.veq(w_, refs[i])), [], 1500, use_cone=False, portfolio=False)["status"] == "proved":
                            match[k_] = i
                            break
                if len(match) != n:
                    vc.note("the summed triangles are not the fan (centre, p_i, p_(i+1)): proof script not applicable")
                for k_, i in sorted(match.items()):
                    r, w = tri[k_]
                    a, b = SP.sub(pts[i], c), SP.sub(pts[(i + 1) % n], c)
                    an, bn = SP.dot(a, nv), SP.dot(b, nv)
                    # S1: the two fan edges are parallel to the plane (vertices and their mean lie in it)
                    for nm, vec_, dotv, idx in (("a", a, an, i), ("b", b, bn, (i + 1) % n)):
                        ident = dotv == inpl[idx] - sum(inpl[j] for j in range(n)) / n
                        vc.hint("(p - c).n expanded", ident)
                        vc.have("fan edge %s%d parallel to the plane" % (nm, i), dotv == 0, using=[ident] + [x == 0 for x in inpl], abstract=[dotv] + inpl)
                    # S2: w x n = 0 (BAC-CAB)
                    wxn = SP.cross(w, nv)
                    for k in range(3):
                        bac = wxn[k] == b[k] * an - a[k] * bn
                        vc.hint("BAC-CAB", bac)
                        vc.have("fan normal parallel to n, triangle %d component %d" % (i, k), wxn[k] == 0, using=[bac, an == 0, bn == 0], abstract=[wxn[k], an, bn])
                    # S3: |w|^2 = (w.n)^2 (Lagrange, |n| = 1)
                    wn = SP.dot(w, nv)
                    lag = SP.norm2(w) * SP.norm2(nv) - wn * wn == wxn[0] * wxn[0] + wxn[1] * wxn[1] + wxn[2] * wxn[2]
                    vc.hint("Lagrange", lag)
                    vc.have("|w|^2 = (w.n)^2, triangle %d" % i, SP.norm2(w) == wn * wn, using=[lag, SP.norm2(nv) == 1] + [x == 0 for x in wxn], abstract=[SP.norm2(w), SP.norm2(nv), wn] + list(wxn))
                    # S4: w.n = T_i = (1/n) sum_j e_ij >= 0 (the centre is a convex combination: it is left of every edge)
                    e = [SP.dot(nv, SP.cross(SP.sub(pts[(i + 1) % n], pts[i]), SP.sub(pts[j], pts[i]))) for j in range(n)]
                    cent = wn == sum(e) / n
                    vc.hint("fan term as the mean of the edge tests", cent)
                    vc.hint("edge test of the edge's own end points vanishes", And(e[i] == 0, e[(i + 1) % n] == 0))
                    prem = [cent, e[i] == 0, e[(i + 1) % n] == 0] + [e[j] > 0 for j in range(n) if j not in (i, (i + 1) % n)]
                    vc.have("fan triangle %d positively oriented" % i, wn > 0, using=prem, abstract=[wn] + e)
                    # S5: 2 r = w.n
                    vc.have("2 r_%d = w.n" % i, 2 * r == wn, using=[4 * r * r == SP.norm2(w), r >= 0, SP.norm2(w) == wn * wn, wn > 0], abstract=[SP.norm2(w), wn])
                total = sum(SP.dot(tri[i][1], nv) for i in range(n))
                vc.hint("sum of the fan terms = shoelace sum", total == shoelace)
                vc.ghost(*([SP.dot(tri[i][1], nv) for i in range(n)] + [shoelace]))
            vc.ensure("area() = n.(sum p_i x p_(i+1)) / 2 (the area of the polygon)", SP.eq(2 * out.value, shoelace))
            vc.ensure("area() > 0", SP.gtz(out.value))
        else:
            vc.ensure("area() = n.(sum p_i x p_(i+1)) / 2 (the area of the polygon)", abs(2 * out.value - float(shoelace)) <= 1e-9 * max(1.0, abs(float(shoelace))))

    return h


_groups_core = groups


# ---------------------------------------------------------------------------
# ConvexPolyhedron.volume / area / length on a tetrahedron with symbolic vertices (faces given in arbitrary orientation; the body is built by
# the real constructor, whose contract is proved in props/C09): volume = |det(e1, e2, e3)| / 6, area = sum of the four face areas, length = sum
# of the six edge lengths.  Callees by contract: ConvexPolygon.area of a triangle (proved above, n = 3), Vector.length / normalized (C18).
# ---------------------------------------------------------------------------

def x_polygon_area(self):
    """contract of ConvexPolygon.area for a triangle (proved in this file for n = 3): A >= 0, 4 A^2 = |(p1 - p0) x (p2 - p0)|^2"""
    from g3dvc import sym as S
    vc = S.engine()
    vc.hit("ConvexPolygon.area")
    pts = [SP.vec(p) for p in self.points]
    if len(pts) != 3:
        from g3dvc.engine import EngineLimit
        raise EngineLimit("area contract stub is stated for triangles only")
    w = SP.cross(SP.sub(pts[1], pts[0]), SP.sub(pts[2], pts[0]))
    key = ("area",) + tuple(sorted(S.term(c).get_id() for p in pts for c in p))
    a = vc.sqrt_cache.get(key)  # the same triangle (as a vertex set) has the same area
    if a is None:
        a = vc.fresh("area")
        vc.assume(a >= 0, "ConvexPolygon.area contract: >= 0")
        vc.assume(4 * a * a == SP.norm2(w), "ConvexPolygon.area contract: 4 A^2 = |AB x AC|^2")
        vc.sqrt_cache[key] = a
    vc.record("polygon_area", (a, key))
    return a


def x_pyramid_volume(self):
    """contract of Pyramid.volume (proved above in h_pyramid): with h >= 0, h^2 = ((apex - p0).n)^2 for the unit normal n of the base and A = base.area():
    |3 V - h A| <= 1e-9 h A  (1/3 is a double)"""
    vc = S.engine()
    vc.hit("Pyramid.volume")
    cache = vc.sqrt_cache  # (per-path store; the value keeps the pyramid alive, so its id is not reused within the path)
    if ("pyramid", id(self)) in cache:
        return cache[("pyramid", id(self))][0]
    base = self.convex_polygon
    A = base.area()
    d = SP.dot(SP.sub(SP.vec(self.point), SP.vec(base.points[0])), SP.vec(base.plane.n))
    h = vc.fresh("height")
    vc.assume(h >= 0, "Pyramid.height contract: >= 0")
    vc.assume(h * h == d * d, "Pyramid.height contract: h^2 = ((apex - p0).n)^2")
    V = vc.fresh("pyrvol")
    tol = h * A * Fraction(1, 10 ** 9)
    vc.assume(And(3 * V - h * A <= tol, h * A - 3 * V <= tol), "Pyramid.volume contract: V = h A / 3 (relative 1e-9)")
    cache[("pyramid", id(self))] = (V, h, A, self)
    vc.record("pyramid", (V, h, A, base))
    return V


def tetrahedron_measures_harness(bits):
    def h(vc):
        from props import C09
        g = C.G()
        b, e1, e2, e3 = C.witness(vc, "b"), C.witness(vc, "e1"), C.witness(vc, "e2"), C.witness(vc, "e3")
        det = SP.det3(e1, e2, e3)
        vc.assume(Not(SP.eqz(det)), "the body is not flat (edge vectors independent)")
        verts = [b, SP.add(b, e1), SP.add(b, e2), SP.add(b, e3)]
        cycles = [list(c)[::-1] if bits[i] else list(c) for i, c in enumerate(C09.BODIES["tetrahedron"]["faces"])]
        if vc.symbolic:
            faces = [C09._face(vc, g, [verts[i] for i in cyc], "f%d" % fi) for fi, cyc in enumerate(cycles)]
        else:
            faces = [g.ConvexPolygon(tuple(g.Point(*verts[i]) for i in cyc)) for cyc in cycles]
        c = [sum(v[k_] for v in verts) / 4 for k_ in range(3)]
        if vc.symbolic:
            for f in faces:
                q = SP.dot(SP.sub(SP.vec(f.plane.p), c), SP.vec(f.plane.n))
                vc.admit(Or(q >= C.ADM * C.EPS0, q <= -C.ADM * C.EPS0), "centre off every face plane by >= 4 eps")
        ph = g.ConvexPolyhedron(tuple(faces))  # (contract proved in props/C09; a failure here leaves the path undecided)
        absdet = abs(det) if not vc.symbolic else (det if vc.branch(F(det > 0)) else -det)
        ws = [SP.cross(SP.sub(verts[cyc[1]], verts[cyc[0]]), SP.sub(verts[cyc[2]], verts[cyc[0]])) for cyc in cycles]
        if vc.symbolic:
            for i, cyc in enumerate(cycles):
                # w_i . (c - p_i) = +- det / 4 : a ring identity in the coordinates
                t = SP.dot(ws[i], SP.sub(c, verts[cyc[0]]))
                vc.hint("face %d: w.(c - p0) squared = det^2 / 16" % i, 16 * t * t == det * det)
        before = vc.snapshot(ph)
        ov = vc.call(ph.volume)
        vc.ensure("volume() does not raise", ov.returned)
        if ov.returned:
            v = ov.value
            if vc.symbolic:
                # per pyramid: 2 A k = 1 (A the face area, k the normalising factor of the stored normal), (8 h A)^2 = det^2, hence 8 h A = |det|
                for (V_, h_, A_, base) in vc.log.get("pyramid", []):
                    i = [j for j, f in enumerate(faces) if f is base or set(S.term(x).get_id() for p in f.points for x in SP.vec(p)) == set(S.term(x).get_id() for p in base.points for x in SP.vec(p))]
                    if not i:
                        continue
                    i = i[0]
                    kk = vc.real("f%d.k" % i)
                    w2 = SP.norm2(ws[i])
                    t = SP.dot(ws[i], SP.sub(c, SP.vec(base.points[0])))
                    d = SP.dot(SP.sub(c, SP.vec(base.points[0])), SP.vec(base.plane.n))
                    vc.hint("pyramid %d: (c - p0).n = +- k w.(c - p0)" % i, d * d == kk * kk * t * t)
                    vc.hint("pyramid %d: 16 (w.(c - p0))^2 = det^2" % i, 16 * t * t == det * det)
                    vc.have("pyramid %d: (2 A k)^2 = 1" % i, 4 * A_ * A_ * kk * kk == 1, using=[4 * A_ * A_ == w2, kk * kk * w2 == 1], abstract=[w2])
                    vc.have("pyramid %d: 2 A k = 1" % i, 2 * A_ * kk == 1, using=[A_ >= 0, kk > 0, 4 * A_ * A_ * kk * kk == 1])
                    vc.have("pyramid %d: 64 (h A)^2 = det^2" % i, 64 * h_ * h_ * A_ * A_ == det * det,
                            using=[h_ * h_ == d * d, d * d == kk * kk * t * t, 16 * t * t == det * det, 2 * A_ * kk == 1], abstract=[t, d, det])
                    vc.have("pyramid %d: 8 h A = |det|" % i, 8 * h_ * A_ == absdet, using=[64 * h_ * h_ * A_ * A_ == det * det, h_ >= 0, A_ >= 0, absdet * absdet == det * det, absdet >= 0], abstract=[det])
            tol = absdet * Fraction(1, 10 ** 9)
            vc.ensure("volume = |det(e1, e2, e3)| / 6 (relative 1e-9: 1/3 is a double)", And(SP.gez(6 * v - absdet + tol), SP.gez(absdet + tol - 6 * v)))
        oa = vc.call(ph.area)
        vc.ensure("area() does not raise", oa.returned)
        if oa.returned:
            if vc.symbolic:
                tri = []
                for f in faces:
                    key = ("area",) + tuple(sorted(S.term(x).get_id() for p in f.points for x in SP.vec(p)))
                    tri.append(vc.sqrt_cache.get(key))
                vc.ensure("area() = sum of the areas of the four faces, each once", all(t is not None for t in tri) and SP.eq(oa.value, sum(tri)))
            else:
                exp = sum(0.5 * float(SP.norm2(w)) ** 0.5 for w in ws)
                vc.ensure("area() = sum of the areas of the four faces", abs(oa.value - exp) <= 1e-9 * exp)
        ol = vc.call(ph.length)
        vc.ensure("length() does not raise", ol.returned)
        if ol.returned:
            pairs = [(i, j) for i in range(4) for j in range(i + 1, 4)]
            if vc.symbolic:
                exp = sum(vc.sqrt(Sym(SP.norm2(SP.sub(verts[i], verts[j]))), False) for i, j in pairs)
            else:
                exp = sum(float(SP.norm2(SP.sub(verts[i], verts[j]))) ** 0.5 for i, j in pairs)
            vc.ensure("length() = sum of the six edge lengths", SP.eq(ol.value, exp) if vc.symbolic else abs(ol.value - exp) <= 1e-9 * exp)
        vc.ensure("frame: the polyhedron is unchanged by its measures", vc.snapshot(ph) == before)

    return h


def groups(tier):
    from props.C01 import coord_stubs
    cs = coord_stubs() + [(C.T_LENGTH, C.x_length), ("Geometry3D.geometry.polygon:get_triangle_area", x_triangle_area)]
    gs = _groups_core(tier)
    from props import C09
    tcs = coord_stubs() + [(C.T_LENGTH, C.x_length), (C.T_NORMALIZED, C.x_normalized), ("Geometry3D.geometry.polygon:ConvexPolygon.__neg__", C09.x_polygon_neg),
                           ("Geometry3D.geometry.polygon:ConvexPolygon.area", x_polygon_area), ("Geometry3D.geometry.pyramid:Pyramid.volume", x_pyramid_volume)]
    for bits in ([(0, 0, 0, 0), (1, 0, 0, 1)] if tier == "quick" else [(0, 0, 0, 0), (1, 0, 0, 1), (1, 1, 1, 1), (0, 1, 1, 0), (0, 0, 1, 0)]):
        gs.append(Group("ConvexPolyhedron.volume / area / length[tetrahedron, face orientations %s]" % "".join(map(str, bits)), tetrahedron_measures_harness(bits),
                        ["Geometry3D.geometry.polyhedron:ConvexPolyhedron.volume", "Geometry3D.geometry.polyhedron:ConvexPolyhedron.area", "Geometry3D.geometry.polyhedron:ConvexPolyhedron.length",
                         "Geometry3D.geometry.polyhedron:ConvexPolyhedron.__init__"],
                        stubs=tcs, world="COORD", timeout_s=1800, prove_ms=30000, expect_hits=["ConvexPolygon.area", "Pyramid.volume"]))
    for n in ((3, 4, 5, 6) if tier == "quick" else (3, 4, 5, 6, 7)):  # n = 8: one spurious path (a pair of edge segments "equal") is not refuted within 90 s, so it would stay undecided
        gs.append(Group("ConvexPolygon.length / area[n=%d]" % n, polygon_measure_harness(n), ["Geometry3D.geometry.polygon:ConvexPolygon.length", "Geometry3D.geometry.polygon:ConvexPolygon.area",
                        "Geometry3D.geometry.polygon:ConvexPolygon.segments"], stubs=cs, world="COORD", timeout_s=1800, prove_ms=60000 if n >= 6 else 30000, feas_ms=3000 if n < 6 else 12000, expect_hits=["get_triangle_area"]))  # (budgets sized for a busy machine: the spurious paths on which two edges "coincide" are refuted by non-linear reasoning)
    return gs
