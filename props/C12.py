"""C12 - intersection obeys the algebra of set intersection."""
import itertools
from fractions import Fraction

from g3dvc.runner import Group
from g3dvc.sym import Sym, SymBool, F, And, Or, Not, Implies, Iff
from g3dvc import setworld as SW
from contracts import inter as CI

PROPERTY = "C12"
LEVEL = "other"
ASSUMES = ["A1", "A2", "A4", "A5", "A6"]
MANIFEST = dict(
    text=("Corollary + bounded. PROVED (lemmas over the handler contracts of C01-C03, SET world, for all operands of all seven types - all 343 type triples are instances of one argument because the contract "
          "'x in intersection(a, b) <=> x in a and x in b' is type-agnostic): intersection(a, a) denotes a; a in b implies intersection(a, b) denotes a; every vertex / end point of the result lies in both operands; "
          "intersection(intersection(a, b), c) and intersection(a, intersection(b, c)) denote the same set, with None absorbing. The lemma makes explicit the only way C12 can fail: an intermediate result that violates the next call's "
          "admission or invariant, or a handler that violates its contract (C01-C03). BOUNDED (labelled): exactly that - nested calls on the library's own non-lattice outputs for catalogue triples, both nestings against the exact oracle, "
          "intersection(a, a) == a and 'a in b => intersection(a, b) == a' with the library's own ==."),
    note="The proved part is conditional on the handler contracts, several of which are themselves only bounded-checked (C02, C03). A1, A4, A5.",
    technique="lemmas over the handler contracts (ground EUF, z3) + labelled bounded stand-in on nested calls with the exact oracle",
    design_ref="DESIGN.md section 9 (C12)",
)
EXPLANATION = "set-algebra laws as lemmas over the extensional contracts; bounded nested calls on library outputs"


class GenericSet(object):
    """the result of an intersection whose kind is left open: a possibly empty point set (empty = the library returns None)"""

    def __init__(self, w, hint):
        import z3
        self.tok = z3.Const(w._name(hint), SW.Obj)
        self.empty = z3.Bool(w._name(hint + ".empty"))


def member(w, x, o):
    if isinstance(o, GenericSet):
        return And(Not(o.empty), SW.mem(x, o.tok))
    return w.member(x, o)


def _generic_inter(w, a, b, hint):
    """contract of intersection() for arbitrary operands, result kind left open: forall x. x in r <=> x in a and x in b; a non-empty result has a point"""
    vc = w.vc
    vc.hit("intersection")
    r = GenericSet(w, hint)
    w.forall(lambda x: member(w, x, r) == And(member(w, x, a), member(w, x, b)))
    e = w.new_point_tok(hint + ".some")
    vc.assume(Implies(Not(r.empty), SW.mem(e, r.tok)), "a result that is not None is a non-empty set")
    return r


def law_harness(ka, kb, kc):
    def h(vc):
        w = SW.SetWorld(vc)
        a, b, c = w.obj(ka, "a"), w.obj(kb, "b"), w.obj(kc, "c")
        x = w.new_point_tok("witness")
        r = _generic_inter(w, a, a, "aa")
        vc.ensure("intersection(a, a) denotes a (in particular it is not None)", And(Iff(member(w, x, r), member(w, x, a)), Not(r.empty)))
        sub = z3_bool(w, "a_in_b")
        w.forall(lambda y: Implies(sub, Implies(member(w, y, a), member(w, y, b))))
        r = _generic_inter(w, a, b, "ab")
        vc.ensure("a in b => intersection(a, b) denotes a", Implies(sub, And(Iff(member(w, x, r), member(w, x, a)), Not(r.empty))))
        # a vertex / end point of the result is a point of the result, hence of both operands
        v = w.new_point_tok("vertex_of_result")
        vc.ensure("every point of the result (so every vertex / end point) lies in both operands", Implies(member(w, v, r), And(member(w, v, a), member(w, v, b))))
        bc = _generic_inter(w, b, c, "bc")
        left = _generic_inter(w, r, c, "ab_c")
        right = _generic_inter(w, a, bc, "a_bc")
        vc.ensure("intersection(intersection(a, b), c) and intersection(a, intersection(b, c)) denote the same set", Iff(member(w, x, left), member(w, x, right)))
        vc.ensure("one nesting is None iff the other is (None absorbs)", Iff(left.empty, right.empty))
        vc.ensure("None absorbs: intersection(a, b) None => both nestings None", Implies(r.empty, And(left.empty, right.empty)))
        if vc.symbolic:
            vc.ensure("probe: the nested intersection is always None", left.empty, kind="must-fail")

    return h


def z3_bool(w, name):
    import z3
    return z3.Bool(w._name(name))


def groups(tier):
    gs = []
    reps = [("Point", "Segment", "Plane"), ("Line", "Point", "ConvexPolygon"), ("Plane", "ConvexPolyhedron", "Point"), ("Segment", "HalfLine", "Line"),
            ("ConvexPolygon", "ConvexPolyhedron", "Plane"), ("Point", "Point", "Point"), ("ConvexPolyhedron", "ConvexPolyhedron", "ConvexPolyhedron"), ("HalfLine", "Plane", "ConvexPolygon")]
    for ka, kb, kc in reps:
        gs.append(Group("laws[%s,%s,%s]" % (ka, kb, kc), law_harness(ka, kb, kc), ["Geometry3D.calc.intersection:intersection (contract)"], world="SET", timeout_s=300, patches=False))
    return gs


# ---------------------------------------------------------------------------
# bounded stand-in: nested calls on the library's own outputs
# ---------------------------------------------------------------------------

def bounded_nested(seed, n):
    from g3dvc import oracle as O
    from g3dvc import catalogue as K
    from g3dvc import bounded as B
    from g3dvc.engine import load_repo
    g = load_repo()
    acc = B.Acc()
    rng = K.make_rng(seed + 12)

    def third(a, b, r):
        """a third operand related to the pair: through features of the result, a copy of an operand, or unrelated"""
        choice = rng.random()
        vs = O.vertices(r) if r is not None else []
        if vs and choice < 0.35:
            p = rng.choice(vs)
            d = K.lattice_dir(rng)
            return rng.choice([("Plane", p, d), ("Line", p, d), ("HalfLine", p, d), ("Segment", p, O.add(p, d)), ("Point", p)])
        if choice < 0.5:
            return rng.choice([a, b])
        if len(vs) >= 2 and choice < 0.7:
            return ("Line", vs[0], O.sub(vs[1], vs[0]))
        kind = rng.choice(("Point", "Line", "HalfLine", "Segment", "Plane"))
        return next(K.flat_objects(kind, rng, 1))

    # every designed configuration of every family, then a deterministic shuffle (so that a small sample is not biased to the first designs)
    pool = []
    flat_pool = []
    for ka in B.FLAT:
        for kb in B.FLAT:
            nd = len(K.flat_designs(ka, kb, rng))
            got = {}
            for rnd in range(4):  # every designed relative position of every flat pair once: the first instance of each label that passes the admission filter
                for a_, b_, lab_ in K.flat_pairs(ka, kb, rng, nd):
                    if lab_ not in got and B.admitted(a_, b_, O.intersect(a_, b_)):
                        got[lab_] = (a_, b_, lab_)
                if len(got) == nd:
                    break
            flat_pool += list(got.values())
    bodies = list(K.polygons(rng, 4)) + list(K.polyhedra(rng, 4))
    for Kb in bodies:
        for kind in B.FLAT:
            pool += [(f, Kb, lab) for f, lab in K.flat_vs_convex(kind, Kb, rng, 24)]
    pool += list(K.convex_pairs(rng, 130))
    rng.shuffle(pool)
    pool = flat_pool + pool
    n = n + len(flat_pool)
    count = 0
    while count < n:
        for _once in (0,):
            for a, b, label in pool:
                if count >= n:
                    break
                r_ab = O.intersect(a, b)
                ok = False
                for attempt in range(5):  # a designed pair is not dropped because the first third operand drawn for it is not admissible
                    c = third(a, b, r_ab)
                    try:
                        O.check_object(c)
                    except Exception:
                        continue
                    r_bc = O.intersect(b, c)
                    exact = O.intersect(r_ab, c) if r_ab is not None else None
                    exact2 = O.intersect(a, r_bc) if r_bc is not None else None
                    if not O.same_set(exact, exact2):
                        acc.fail("oracle", "oracle is not associative on this triple", dict(a=B.ser(a), b=B.ser(b), c=B.ser(c)))
                        continue
                    ok = B.admitted(a, b, r_ab) and B.admitted(b, c, r_bc) and (r_ab is None or B.admitted(r_ab, c, exact)) and (r_bc is None or B.admitted(a, r_bc, exact))
                    if ok:
                        break
                if not ok:
                    acc.skipped += 1
                    continue
                count += 1
                klass = "%s,%s,%s" % (a[0], b[0], c[0])
                acc.case(klass)
                case = dict(a=B.ser(a), b=B.ser(b), c=B.ser(c), label=label)
                A, Bb, Cc = O.to_lib(a, "float"), O.to_lib(b, "float"), O.to_lib(c, "float")
                inner = B._call(g.intersection, A, Bb)
                if inner[0] == "exc" or not O.matches(inner[1], r_ab, 1e-7)[0]:
                    # the vertices / end points of intersection(a, b) must lie in both operands: compare with the exact common set
                    acc.fail(klass, "intersection(a, b) = %r, but the common point set is %s" % (inner[1], "empty" if r_ab is None else r_ab[0]), case, expected=B.ser(r_ab))
                    continue
                left = B._call(lambda: g.intersection(g.intersection(A, Bb), Cc))
                right = B._call(lambda: g.intersection(A, g.intersection(Bb, Cc)))
                for nm, res in (("intersection(intersection(a, b), c)", left), ("intersection(a, intersection(b, c))", right)):
                    if res[0] == "exc":
                        acc.fail(klass, "%s raised %r" % (nm, res[1]), case, expected=B.ser(exact))
                        break
                    okm, why = O.matches(res[1], exact, 1e-6)
                    if not okm:
                        acc.fail(klass, "%s: %s" % (nm, why), case, expected=B.ser(exact), observed=B.ser(O.from_lib(res[1])))
                        break
                # laws 1 and 2 with the library's own ==
                for nm, o, lib in (("a", a, A), ("b", b, Bb)):
                    if o[0] == "Point":
                        continue
                    s = B._call(lambda: g.intersection(lib, lib))
                    if s[0] == "exc" or not B._call(lambda: s[1] == lib)[1] is True:
                        acc.fail(klass + " self", "intersection(%s, %s) is not == %s: %r" % (nm, nm, nm, s[1]), case)
                if a[0] != "Point" and O.contains_obj(b, a) if a[0] != "Point" else O.contains(b, a[1]):
                    s = B._call(lambda: g.intersection(A, Bb))
                    good = s[0] == "ret" and s[1] is not None and O.matches(s[1], a, 1e-7)[0]
                    if not good:
                        acc.fail(klass + " contained", "a in b but intersection(a, b) does not denote a: %r" % (s[1],), case)
                acc.sample(dict(klass=klass, a=B.ser(a), b=B.ser(b), c=B.ser(c), expected=B.ser(exact)))
    return acc.result()


def bounded(tier, seed):
    return [("nested intersections on library outputs", bounded_nested, (seed, 250 if tier == "quick" else 4000), 3000)]


def replay_case(case):
    from g3dvc import oracle as O
    from g3dvc import bounded as B
    from g3dvc.engine import load_repo
    g = load_repo()
    a, b, c = B.deser(case["a"]), B.deser(case["b"]), B.deser(case["c"])
    r_ab = O.intersect(a, b)
    exact = O.intersect(r_ab, c) if r_ab is not None else None
    A, Bb, Cc = O.to_lib(a, "float"), O.to_lib(b, "float"), O.to_lib(c, "float")
    left = B._call(lambda: g.intersection(g.intersection(A, Bb), Cc))
    right = B._call(lambda: g.intersection(A, g.intersection(Bb, Cc)))
    bad = [r for r in (left, right) if r[0] == "exc" or not O.matches(r[1], exact, 1e-6)[0]]
    return dict(fails=bool(bad), observed=[repr(r[1]) for r in (left, right)], expected=B.ser(exact))
