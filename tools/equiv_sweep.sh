#!/bin/sh
# false-alarm sweep: every benign (behaviour-preserving) patch under selftest/equivalent must leave every check green.
# usage: tools/equiv_sweep.sh <repo-snapshot> [checks...]   (run from a /verif checkout; scratch copies go to /tmp and are removed)
SRC="${1:-/repo}"; shift
CHECKS="${*:-C01 C02 C03 C04 C05 C06 C07 C08 C09 C10 C11 C12 C13 C14 C15 C16 C17 C18 C19 C20}"
HERE="$(cd "$(dirname "$0")/.." && pwd)"
for d in "$HERE"/selftest/equivalent/*.diff; do
  name=$(basename "$d" .diff)
  if [ -n "$EQUIV_ONLY" ]; then case "$name" in $EQUIV_ONLY) ;; *) continue ;; esac; fi
  W=$(mktemp -d /tmp/equiv_XXXXXX)
  # the committed HEAD of the snapshot (not its working tree: a seeded change may be applied there at this moment by tools/seed_eval.py)
  if git -C "$SRC" rev-parse HEAD >/dev/null 2>&1; then git -C "$SRC" archive HEAD Geometry3D docs unit_tests | tar -x -C "$W"; else cp -r "$SRC/Geometry3D" "$SRC/docs" "$SRC/unit_tests" "$W/" 2>/dev/null; fi
  (cd "$W" && git init -q . && git apply "$d") || { echo "EQUIV $name: patch does not apply"; rm -rf "$W"; continue; }
  t=$(cd "$W" && PYTHONPATH="$W" /venv/bin/python -m pytest -q -p no:cacheprovider unit_tests 2>&1 | tail -1)
  for c in $CHECKS; do
    out=$(cd "$HERE" && G3DVC_EVIDENCE_DIR="$HERE/work/evidence-of-changed-trees" G3DVC_REPO="$W" ./check $c --tier quick 2>&1); rc=$?
    v=$(printf "%s\n" "$out" | grep -c "^VIOLATION")
    u=$(printf "%s\n" "$out" | grep -c "^UNDECIDED\|^ENGINE-ERROR")
    echo "EQUIV $name $c exit=$rc violations=$v undecided=$u tests=[$t]"
    if [ "$v" != "0" ]; then printf "%s\n" "$out" | grep "^VIOLATION" | head -3 | cut -c1-300; fi
    if [ "$u" != "0" ]; then printf "%s\n" "$out" | grep "^UNDECIDED\|^ENGINE-ERROR" | head -2 | cut -c1-300; fi
  done
  rm -rf "$W"
done
