"""C15 - degenerate or invalid constructions are rejected, never returned.

`raises` contracts (exceptional postconditions): for every input in the
degenerate class EVERY path ends in an exception and none returns.
"""
import itertools
from fractions import Fraction

from g3dvc.runner import Group
from g3dvc.sym import Sym, SymBool, F, And, Or, Not, Implies, Iff
from g3dvc import spec as SP
from g3dvc import sym as S
from contracts import common as C
from props.C05 import stub_get_eps, eps_of, T_GET_EPS
from props import C07, C11

PROPERTY = "C15"
LEVEL = "proof"
ASSUMES = ["A1", "A2", "A5", "A6"]
MANIFEST = dict(
    text=("Exceptional postconditions proved on the real constructors: for every input of a degenerate class every path raises and none returns. Symbolically (all positions and magnitudes, symbolic eps): Line with a direction that is zero or "
          "within eps/1000 of zero in every coordinate (Point/Vector, Point/Point forms); Segment and HalfLine from two points that coincide exactly or within eps/1000, or from a vector shorter than eps/1000, or from wrong types; "
          "Plane with zero normal, from exactly collinear points or from the general form with a = b = c = 0; Parallelogram / Parallelepiped with a zero or pairwise parallel edge vector; Pyramid whose apex lies in the base plane; circle with n < 3. "
          "Type-exhaustively: move with a non-Vector on all seven types; unsupported operand pairs of intersection, distance, angle, parallel, orthogonal and volume raise NotImplementedError/ValueError/TypeError and never return."),
    note=("Polygon-level and polyhedron-level rejections (fewer than three distinct vertices, all vertices collinear, a vertex off the plane, face sets that are not closed, coplanar parallelepiped vectors, the collinear-points helper) are decided by "
          "enumeration over concrete instances in lattice positions and oblique poses - a labelled bounded part of this check. A1, A5."),
    technique='contract-based deductive verification of exceptional postconditions (every path of the constructor on a degenerate input raises; z3) + native enumeration of polygon / polyhedron rejections in oblique poses',
    design_ref="DESIGN.md section 9 (C15)",
)
EXPLANATION = "raises-contracts: every path of the constructor on a degenerate input ends in an exception"


def _must_raise(vc, label, out, *types_):
    vc.ensure("%s raises (never returns)" % label, out.raised(*types_) if types_ else out.raised())
    if out.returned:
        vc.note("%s returned %r" % (label, type(out.value).__name__))


def tiny(vc, name, eps):
    """three reals, each within eps/1000 of zero"""
    d = [vc.real("%s%d" % (name, i)) for i in range(3)]
    for x in d:
        vc.assume(And(x <= eps / 1000, x >= -eps / 1000), "|component| <= eps/1000")
    return d


def h_line(vc):
    g = C.G()
    eps = eps_of(vc)
    p = C.P(vc, "p")
    d = tiny(vc, "d", eps)
    _must_raise(vc, "Line(Point, Vector ~ 0)", vc.call(g.Line, p, g.Vector(*d)), ValueError)
    q = g.Point(*SP.add(SP.vec(p), d))
    _must_raise(vc, "Line(Point, same Point)", vc.call(g.Line, p, q), ValueError)
    _must_raise(vc, "Line(Vector, Vector ~ 0)", vc.call(g.Line, p.pv(), g.Vector(*d)), ValueError)
    _must_raise(vc, "Line(Point, Vector(0,0,0))", vc.call(g.Line, p, g.Vector(0, 0, 0)), ValueError)


def h_segment_halfline(vc):
    g = C.G()
    eps = eps_of(vc)
    p = C.P(vc, "p")
    d = tiny(vc, "d", eps)
    q = g.Point(*SP.add(SP.vec(p), d))
    for name, cls in (("Segment", g.Segment), ("HalfLine", g.HalfLine)):
        _must_raise(vc, "%s(Point, coincident Point)" % name, vc.call(cls, p, q), ValueError)
        _must_raise(vc, "%s(Point, same Point object)" % name, vc.call(cls, p, p), ValueError)
        _must_raise(vc, "%s(Point, Vector(0,0,0))" % name, vc.call(cls, p, g.Vector(0, 0, 0)), ValueError)
        for bad in (3, None, (1, 2, 3), "x"):
            _must_raise(vc, "%s(Point, %s)" % (name, type(bad).__name__), vc.call(cls, p, bad), ValueError, TypeError)
            _must_raise(vc, "%s(%s, Point)" % (name, type(bad).__name__), vc.call(cls, bad, p), ValueError, TypeError)
        _must_raise(vc, "%s(Vector, Vector)" % name, vc.call(cls, g.Vector(1, 2, 3), g.Vector(1, 0, 0)), ValueError, TypeError)


def h_short_vector(vc):
    """Segment / HalfLine from a vector of length < eps/1000"""
    g = C.G()
    eps = eps_of(vc)
    p = C.P(vc, "p")
    v = C.V(vc, "v")
    vc.assume(SP.norm2(SP.vec(v)) <= (eps / 1000) * (eps / 1000), "|v| <= eps/1000")
    for name, cls in (("Segment", g.Segment), ("HalfLine", g.HalfLine)):
        _must_raise(vc, "%s(Point, Vector shorter than eps/1000)" % name, vc.call(cls, p, v), ValueError)


def h_plane(vc):
    g = C.G()
    p = C.P(vc, "p")
    _must_raise(vc, "Plane(Point, zero normal)", vc.call(g.Plane, p, g.Vector(0, 0, 0)), ZeroDivisionError, ValueError)
    d = C.V(vc, "d")
    s, t = vc.real("s"), vc.real("t")
    a = SP.vec(p)
    b = g.Point(*SP.add(a, SP.scale(s, SP.vec(d))))
    c = g.Point(*SP.add(a, SP.scale(t, SP.vec(d))))
    _must_raise(vc, "Plane(three collinear Points)", vc.call(g.Plane, p, b, c), ZeroDivisionError, ValueError)
    _must_raise(vc, "Plane(Point, two parallel Vectors)", vc.call(g.Plane, p, g.Vector(*SP.scale(s, SP.vec(d))), g.Vector(*SP.scale(t, SP.vec(d)))), ZeroDivisionError, ValueError)
    dd = vc.real("dd")
    _must_raise(vc, "Plane(0, 0, 0, d)", vc.call(g.Plane, 0, 0, 0, dd), ZeroDivisionError, ValueError, TypeError)


def h_parallelogram(vc):
    g = C.G()
    p = C.P(vc, "p")
    v = C.V(vc, "v")
    k = vc.real("k")
    w = g.Vector(*SP.scale(k, SP.vec(v)))
    _must_raise(vc, "Parallelogram(p, v, k v)", vc.call(g.Parallelogram, p, v, w), ValueError, ZeroDivisionError)
    _must_raise(vc, "Parallelogram(p, 0, v)", vc.call(g.Parallelogram, p, g.Vector(0, 0, 0), v), ValueError, ZeroDivisionError)
    _must_raise(vc, "Parallelogram(p, v, 0)", vc.call(g.Parallelogram, p, v, g.Vector(0, 0, 0)), ValueError, ZeroDivisionError)
    u = C.V(vc, "u")
    for label, args in (("Parallelepiped(p, v, k v, u)", (p, v, w, u)), ("Parallelepiped(p, v, u, k v)", (p, v, u, w)), ("Parallelepiped(p, u, v, k v)", (p, u, v, w)),
                        ("Parallelepiped(p, 0, v, u)", (p, g.Vector(0, 0, 0), v, u))):
        _must_raise(vc, label, vc.call(g.Parallelepiped, *args), ValueError, ZeroDivisionError)
    for bad in (3, None, (1, 2, 3)):
        _must_raise(vc, "Parallelogram(%s, v, u)" % type(bad).__name__, vc.call(g.Parallelogram, bad, v, u), TypeError, ValueError)
        _must_raise(vc, "Parallelepiped(p, v, u, %s)" % type(bad).__name__, vc.call(g.Parallelepiped, p, v, u, bad), TypeError, ValueError)


def h_circle(vc):
    g = C.G()
    c = C.P(vc, "c")
    n = C.V(vc, "n")
    r = vc.real("r")
    for k in (-1, 0, 1, 2):
        _must_raise(vc, "get_circle_point_list(n=%d)" % k, vc.call(g.get_circle_point_list, c, n, r, k), ValueError)
        _must_raise(vc, "Circle(n=%d)" % k, vc.call(g.Circle, c, n, r, k), ValueError)


def h_native(vc):
    """polygon / polyhedron / pyramid / helper rejections and unsupported operands over concrete instances in oblique poses"""
    g = C.G()
    import importlib
    from g3dvc import oracle as O
    from g3dvc import catalogue as K
    P, V = g.Point, g.Vector
    rng = K.make_rng(15)
    poses = [K.random_pose(rng) for _ in range(6)] + [(K.IDENTITY, (0, 0, 0))]

    def pts(raw, pose):
        R, t = pose[0], pose[1]
        return [P(*[O.to_number(c, "float") for c in O.add(K.mat_vec(R, v), t)]) for v in raw]

    for pose in poses:
        a, b, c, d, e = [(0, 0, 0), (2, 0, 0), (2, 1, 0), (0, 1, 0), (4, 0, 0)]
        # fewer than three distinct vertices
        for label, raw in (("2 points", [a, b]), ("1 point", [a]), ("3 points, 2 distinct", [a, b, a]), ("4 points, 2 distinct", [a, a, b, b]), ("3 identical points", [a, a, a])):
            _must_raise(vc, "ConvexPolygon(%s)" % label, vc.call(lambda: g.ConvexPolygon(tuple(pts(raw, pose)))))
        _must_raise(vc, "ConvexPolygon(all vertices collinear)", vc.call(lambda: g.ConvexPolygon(tuple(pts([a, b, e], pose)))))
        _must_raise(vc, "ConvexPolygon(four collinear vertices)", vc.call(lambda: g.ConvexPolygon(tuple(pts([a, b, e, (1, 0, 0)], pose)))))
        for off in ((1, 1, 1), (0, 1, Fraction(1, 100)), (5, 5, -3)):
            _must_raise(vc, "ConvexPolygon(vertex off the plane of the first three)", vc.call(lambda: g.ConvexPolygon(tuple(pts([a, b, c, off], pose)))), ValueError)
        # pyramid with apex in the base plane
        base = g.ConvexPolygon(tuple(pts([a, b, c, d], pose)))
        for apex in ((1, Fraction(1, 2), 0), (7, 7, 0), (0, 0, 0)):
            _must_raise(vc, "Pyramid(apex in the base plane)", vc.call(lambda: g.Pyramid(base, pts([apex], pose)[0], direct_call=False)), ValueError)
        _must_raise(vc, "Pyramid(non-polygon base)", vc.call(lambda: g.Pyramid(pts([a], pose)[0], pts([b], pose)[0], direct_call=False)), ValueError, TypeError)
        # face sets that are not a closed polyhedron
        cube = [[(0, 0, 0), (1, 0, 0), (1, 1, 0), (0, 1, 0)], [(0, 0, 1), (1, 0, 1), (1, 1, 1), (0, 1, 1)], [(0, 0, 0), (1, 0, 0), (1, 0, 1), (0, 0, 1)],
                [(0, 1, 0), (1, 1, 0), (1, 1, 1), (0, 1, 1)], [(0, 0, 0), (0, 1, 0), (0, 1, 1), (0, 0, 1)], [(1, 0, 0), (1, 1, 0), (1, 1, 1), (1, 0, 1)]]
        mk = lambda faces: g.ConvexPolyhedron(tuple(g.ConvexPolygon(tuple(pts(f, pose))) for f in faces))
        vc.ensure("control: the closed cube is accepted", vc.call(mk, cube).returned)
        _must_raise(vc, "ConvexPolyhedron(cube with one face missing)", vc.call(mk, cube[:5]), ValueError)
        _must_raise(vc, "ConvexPolyhedron(two faces only)", vc.call(mk, cube[:2]), ValueError)
        _must_raise(vc, "ConvexPolyhedron(one face)", vc.call(mk, cube[:1]), ValueError, ZeroDivisionError)
        _must_raise(vc, "ConvexPolyhedron(cube with a duplicated face)", vc.call(mk, cube + [cube[0]]), ValueError)
        far = [[(5, 5, 5), (6, 5, 5), (6, 6, 5), (5, 6, 5)]]
        _must_raise(vc, "ConvexPolyhedron(cube plus a detached face)", vc.call(mk, cube + far), ValueError)
        # face sets in which open edges (in one face) are balanced by over-used edges (in three or four faces)
        for i in range(6):
            for j in range(6):
                if i != j:
                    fs = [f for k, f in enumerate(cube) if k != i] + [cube[j]]
                    _must_raise(vc, "ConvexPolyhedron(cube without face %d, face %d twice)" % (i, j), vc.call(mk, fs), ValueError)
        lo, hi, mid = 0, 3, 1
        ring = lambda z0, z1: [[(0, 0, z0), (2, 0, z0), (2, 0, z1), (0, 0, z1)], [(2, 0, z0), (2, 2, z0), (2, 2, z1), (2, 0, z1)],
                               [(2, 2, z0), (0, 2, z0), (0, 2, z1), (2, 2, z1)], [(0, 2, z0), (0, 0, z0), (0, 0, z1), (0, 2, z1)]]
        sq = lambda z: [(0, 0, z), (2, 0, z), (2, 2, z), (0, 2, z)]
        _must_raise(vc, "ConvexPolyhedron(open box with an inner shelf: V=12, E=20, F=10)", vc.call(mk, [sq(lo)] + ring(lo, mid) + ring(mid, hi) + [sq(mid)]), ValueError)
        _must_raise(vc, "ConvexPolyhedron(two stacked boxes including the shared face)", vc.call(mk, [sq(lo)] + ring(lo, mid) + ring(mid, hi) + [sq(mid), sq(hi)]), ValueError)
        tet = [[(0, 0, 0), (2, 0, 0), (0, 2, 0)], [(0, 0, 0), (2, 0, 0), (0, 0, 2)], [(0, 0, 0), (0, 2, 0), (0, 0, 2)], [(2, 0, 0), (0, 2, 0), (0, 0, 2)]]
        vc.ensure("control: the closed tetrahedron is accepted", vc.call(mk, tet).returned)
        for i in range(4):
            _must_raise(vc, "ConvexPolyhedron(tetrahedron without face %d)" % i, vc.call(mk, [f for k, f in enumerate(tet) if k != i]), ValueError)
            for j in range(4):
                if i != j:
                    _must_raise(vc, "ConvexPolyhedron(tetrahedron without face %d, face %d twice)" % (i, j), vc.call(mk, [f for k, f in enumerate(tet) if k != i] + [tet[j]]), ValueError)
        _must_raise(vc, "ConvexPolyhedron(two disjoint triangles)", vc.call(mk, [tet[0], [(5, 5, 5), (7, 5, 5), (5, 7, 5)]]), ValueError)
        # coplanar (dependent but pairwise non-parallel) parallelepiped vectors
        v1, v2 = (2, 0, 0), (0, 3, 0)
        R = pose[0]
        vv = lambda raw: V(*[O.to_number(c, "float") for c in K.mat_vec(R, raw)])
        _must_raise(vc, "Parallelepiped(v3 = v1 + v2)", vc.call(lambda: g.Parallelepiped(pts([a], pose)[0], vv(v1), vv(v2), vv((2, 3, 0)))))
        _must_raise(vc, "Parallelepiped(v3 = v1 - 2 v2)", vc.call(lambda: g.Parallelepiped(pts([a], pose)[0], vv(v1), vv(v2), vv((2, -6, 0)))))
        # collinear-points helper
        _must_raise(vc, "get_segment_from_point_list(one point)", vc.call(lambda: g.get_segment_from_point_list(pts([a], pose))), ValueError)
        _must_raise(vc, "get_segment_from_point_list(no point)", vc.call(lambda: g.get_segment_from_point_list([])), ValueError)
        _must_raise(vc, "get_segment_from_point_list(non-collinear points)", vc.call(lambda: g.get_segment_from_point_list(pts([a, b, c], pose))), ValueError)
        _must_raise(vc, "get_segment_from_point_list(fourth point off the line)", vc.call(lambda: g.get_segment_from_point_list(pts([a, b, e, (1, 1, 1)], pose))), ValueError)
    # unsupported operand types
    I = importlib.import_module("Geometry3D.calc.intersection")
    D = importlib.import_module("Geometry3D.calc.distance")
    Vm = importlib.import_module("Geometry3D.calc.volume")
    sq = g.ConvexPolygon((P(0, 0, 0), P(2, 0, 0), P(2, 1, 0), P(0, 1, 0)))
    geo = {"Point": P(1, 2, 3), "Line": g.Line(P(1, 2, 3), V(2, 1, 2)), "Plane": g.Plane(P(1, 2, 3), V(2, 1, 2)), "Segment": g.Segment(P(1, 2, 3), P(2, 4, 4)),
           "HalfLine": g.HalfLine(P(1, 2, 3), V(2, 1, 2)), "ConvexPolygon": sq, "ConvexPolyhedron": g.Parallelepiped(P(0, 0, 0), V(1, 0, 0), V(0, 2, 0), V(0, 0, 3))}
    foreign = {"int": 3, "str": "x", "Vector": V(1, 0, 0), "tuple": (1, 2, 3), "Pyramid": g.Pyramid(sq, P(0, 0, 5), direct_call=False)}
    for na, a in geo.items():
        for nf, f in foreign.items():
            _must_raise(vc, "intersection(%s, %s)" % (na, nf), vc.call(I.intersection, a, f), NotImplementedError, ValueError, TypeError)
            _must_raise(vc, "intersection(%s, %s)" % (nf, na), vc.call(I.intersection, f, a), NotImplementedError, ValueError, TypeError)
    allobj = dict(geo)
    allobj.update(foreign)
    ok_d = {("Point", "Point"), ("Point", "Line"), ("Line", "Point"), ("Line", "Line"), ("Point", "Plane"), ("Plane", "Point"), ("Line", "Plane"), ("Plane", "Line")}
    for na, a in allobj.items():
        for nb, b in allobj.items():
            if (na, nb) not in ok_d:
                _must_raise(vc, "distance(%s, %s)" % (na, nb), vc.call(D.distance, a, b), NotImplementedError, ValueError, TypeError)
    for na, a in allobj.items():
        if na not in ("Pyramid", "ConvexPolyhedron"):
            _must_raise(vc, "volume(%s)" % na, vc.call(Vm.volume, a), NotImplementedError, ValueError, TypeError)


def groups(tier):
    eps_stub = [(T_GET_EPS, stub_get_eps)]
    ex = [(C.T_PAR, C.x_parallel), (C.T_VEQ, C.x_vector_eq), (C.T_PEQ, C.x_point_eq), (C.T_LENGTH, C.x_length)]
    gs = [
        Group("Line rejects a zero / tiny direction", h_line, ["Geometry3D.geometry.line:Line.__init__"], stubs=eps_stub, world="COORD", timeout_s=300, expect_hits=["get_eps"]),
        Group("Segment / HalfLine reject coincident points and wrong types", h_segment_halfline, ["Geometry3D.geometry.segment:Segment.__init__", "Geometry3D.geometry.halfline:HalfLine.__init__"],
              stubs=eps_stub, world="COORD", timeout_s=300, expect_hits=["get_eps"]),
        Group("Segment / HalfLine reject a too short vector", h_short_vector, ["Geometry3D.geometry.segment:Segment.__init__", "Geometry3D.geometry.halfline:HalfLine.__init__"],
              stubs=eps_stub + [(C.T_LENGTH, C.x_length)], world="COORD", timeout_s=300, expect_hits=["get_eps"]),
        Group("Plane rejects zero normal / collinear points / zero general form", h_plane, ["Geometry3D.geometry.plane:Plane.__init__", "Geometry3D.geometry.plane:Plane._init_pn",
              "Geometry3D.geometry.plane:Plane._init_gf"], stubs=[(C.T_NULL, C.x_null), (C.T_PAR, C.x_parallel)], world="COORD", timeout_s=300),
        Group("Parallelogram / Parallelepiped reject zero and parallel edge vectors", h_parallelogram, ["Geometry3D.geometry.polygon:ConvexPolygon.Parallelogram",
              "Geometry3D.geometry.polyhedron:ConvexPolyhedron.Parallelepiped"], stubs=ex, world="COORD", timeout_s=300),
        Group("circle with n < 3", h_circle, ["Geometry3D.geometry.polygon:get_circle_point_list", "Geometry3D.geometry.polygon:ConvexPolygon.Circle"], world="COORD", timeout_s=120),
        Group("polygon / polyhedron / pyramid / helper rejections, unsupported operands[concrete instances, oblique poses]", h_native,
              ["Geometry3D.geometry.polygon:ConvexPolygon.__init__", "Geometry3D.geometry.polyhedron:ConvexPolyhedron.__init__", "Geometry3D.geometry.pyramid:Pyramid.__init__",
               "Geometry3D.calc.aux_calc:get_segment_from_point_list", "Geometry3D.calc.intersection:intersection", "Geometry3D.calc.distance:distance", "Geometry3D.calc.volume:volume"],
              world="CONFIG", timeout_s=600, patches=False),
        Group("move(non-Vector)[all seven types]", C07.nonvector_harness, ["Geometry3D.geometry.%s:%s.move" % (m, k) for k, m in
              (("Point", "point"), ("Line", "line"), ("Plane", "plane"), ("Segment", "segment"), ("HalfLine", "halfline"), ("ConvexPolygon", "polygon"), ("ConvexPolyhedron", "polyhedron"))],
              world="CONFIG", timeout_s=120, patches=False),
        Group("angle / parallel / orthogonal: unsupported operands raise", C11.h_unsupported, ["Geometry3D.calc.angle:angle", "Geometry3D.calc.angle:parallel", "Geometry3D.calc.angle:orthogonal"],
              world="CONFIG", timeout_s=120, patches=False),
    ]
    return gs
