"""C16 - solve returns genuine solutions of the linear system.

Contract on Geometry3D.utils.solver:solve (gaussian_elimination, Solution.__init__,
__bool__, __call__ and their helpers are executed as real code; `null` is
replaced by its exact contract), per matrix shape, entries fully symbolic:

  (i)   solve never raises;
  (ii)  truthy  => for arbitrary free values the call returns a tuple without
        None that satisfies every equation of the ORIGINAL matrix;
  (iii) falsy   => no x satisfies all equations (universal witness);
  (iv)  truthy  => varargs = unknowns - rank(A), rank by minors; exact <=> varargs = 0.
"""
import itertools
from fractions import Fraction

from g3dvc.runner import Group
from g3dvc.sym import Sym, SymBool, F, And, Or, Not, Implies, Iff
from g3dvc import spec as SP
from contracts import common as C

PROPERTY = "C16"
LEVEL = "proof"
MANIFEST = dict(
    text=("Deductive proof, per matrix shape (1-3 equations x 2-3 unknowns; 3x3 in the thorough tier), that the real solve() never raises, is truthy exactly for consistent systems, "
          "reports unknowns-rank(A) free parameters and returns tuples that satisfy every original equation for arbitrary free values. All entries are symbolic reals, "
          "every feasible path of the real gaussian_elimination/Solution code is enumerated and each clause is discharged by z3/cvc5. "
          "This is the right level because the property quantifies over all matrices, including every zero pattern, which path enumeration over symbolic entries covers completely."),
    note=("Assumes real arithmetic for floats (A1) and the exact contract of null() on admitted inputs (A5; null's tolerance contract is proved with symbolic eps in the same check). "
          "Shapes are bounded to those the property names. A labelled bounded stand-in (all matrices over {-2..2}) cross-checks the engine against CPython and is not counted as proved."),
    technique='contract-based deductive verification of solve() per matrix shape (symbolic execution on z3 reals, rank by minors; z3 / cvc5) + labelled bounded exhaustive small-integer matrices and float-residue samples against exact elimination',
    design_ref="DESIGN.md section 9 (C16), section 2",
)
ASSUMES = ["A1", "A2", "A5", "A6"]
EXPLANATION = ("solve() is verified per matrix shape (1-3 equations x 2-3 unknowns, the shapes the property names) with every entry a symbolic real: "
               "all feasible paths of gaussian_elimination/Solution are enumerated by symbolic execution of the real code and each clause is a validity query. "
               "The loops unroll over the concrete shape; there is no induction over the shape.")
TRUSTED = ["shape bound: 1-3 equations x 2-3 unknowns (the six shapes of the property statement)"]
T_SOLVE = "Geometry3D.utils.solver:solve"
NOT_VERIFIED = []


def _sys_holds(m0, x):
    n = len(m0[0]) - 1
    return And(*[SP.eq(sum(m0[i][j] * x[j] for j in range(n)), m0[i][n]) for i in range(len(m0))])


def make_solve_harness(R, N, pattern=None, free_values_clause=False):
    """R equations, N unknowns; pattern: optional tuple of bools = which leading-column entries are zero (case split).
    free_values_clause: also prove the clause that the stub contract of solve() (contracts.common.SolutionStub) hands to callers beyond C16's
    statement - the given free values appear, in order, among the components of the result (used from props/C17)."""

    def h(vc):
        g = C.G()
        from Geometry3D.utils import solver as SV
        m = [[vc.real("m%d%d" % (i, j)) for j in range(N + 1)] for i in range(R)]
        if pattern is not None:
            for i, z in enumerate(pattern):
                vc.assume(SP.eqz(m[i][0]) if z else Not(SP.eqz(m[i][0])), "case split on the leading column")
        m0 = [list(r) for r in m]
        A0 = [r[:N] for r in m0]
        out = vc.call(SV.solve, m)
        vc.ensure("(i) solve does not raise", out.returned)
        if not out.returned:
            vc.note("raised %r" % (out.value,))
            return
        sol = out.value
        truthy = bool(sol)
        if truthy:
            k = sol.varargs
            vc.ensure("(iv) varargs = unknowns - rank(A)", C.rank_is(A0, N - k) if 0 <= k <= N else False)
            vc.ensure("(iv) exact <=> varargs = 0", sol.exact == (k == 0))
            if not (0 <= k <= N):
                return
            free = [vc.real("f%d" % i) for i in range(k)]
            o2 = vc.call(sol, *free)
            vc.ensure("(ii) call does not raise", o2.returned)
            if not o2.returned:
                vc.note("call raised %r" % (o2.value,))
                return
            x = o2.value
            ok = isinstance(x, tuple) and len(x) == N and all(v is not None for v in x)
            vc.ensure("(ii) tuple of N numbers, no None", ok)
            if ok:
                vc.ensure("(ii) result satisfies every original equation", _sys_holds(m0, x))
                if free_values_clause:
                    vc.ensure("callee contract: the given free values appear, in order, among the components of the result", C.free_values_appear(list(x), free))
                if vc.symbolic and k == 0:
                    vc.ensure("probe: the solution is always the zero vector", And(*[SP.eqz(v) for v in x]), kind="must-fail")
        else:
            w = [vc.real("w%d" % j) for j in range(N)]
            vc.ensure("(iii) falsy => the system has no solution", Not(_sys_holds(m0, w)))

    return h


def make_null_harness():
    def h(vc):
        from Geometry3D.utils import solver as SV
        eps = vc.real("eps")
        vc.assume(And(eps > 0, eps <= Fraction(1, 10 ** 5)), "0 < eps <= 1e-5")
        f = vc.real("f")
        out = vc.call(SV.null, f)
        vc.ensure("null does not raise", out.returned)
        if not out.returned:
            return
        r = out.value
        rf = F(r) if isinstance(r, SymBool) else bool(r)
        vc.ensure("|f| <= eps/1000 => null(f)", Implies(And(f <= eps / 1000, f >= -eps / 1000), rf))
        vc.ensure("|f| >= 4 eps => not null(f)", Implies(Or(f >= 4 * eps, f <= -4 * eps), Not(rf)))
        if vc.symbolic:
            vc.ensure("probe: null is constantly true", rf, kind="must-fail")

    return h


def stub_get_eps():
    from g3dvc import sym as S
    vc = S.engine()
    vc.hit("get_eps")
    return vc.real("eps")


T_GET_EPS = "Geometry3D.utils.constant:get_eps"


def groups(tier):
    gs = []
    gs.append(Group("null[tolerance contract]", make_null_harness(), ["Geometry3D.utils.solver:null"], stubs=[(T_GET_EPS, stub_get_eps)],
                    expect_hits=["get_eps"], world="SCALAR", timeout_s=60))
    shapes = [(1, 2), (1, 3), (2, 2), (2, 3)]
    for R, N in shapes:
        gs.append(Group("solve[%dx%d]" % (R, N), make_solve_harness(R, N), [T_SOLVE], stubs=[(C.T_NULL, C.x_null)], expect_hits=["null"],
                        world="COORD", timeout_s=600))
    # the two 3-row shapes are split by the zero pattern of the leading column
    # (a complete case split of the precondition) so that the parts run in parallel
    split = [(3, 2)] + ([(3, 3)] if tier == "thorough" else [])
    for R, N in split:
        for pat in itertools.product([True, False], repeat=3):
            gs.append(Group("solve[%dx%d|leading column %s]" % (R, N, "".join("0" if z else "x" for z in pat)), make_solve_harness(R, N, pat), [T_SOLVE],
                            stubs=[(C.T_NULL, C.x_null)], expect_hits=["null"], world="COORD", timeout_s=3000 if N == 3 else 900))
    return gs


# ---------------------------------------------------------------------------
# bounded stand-in: exhaustive small integer matrices against exact rational elimination
# ---------------------------------------------------------------------------

def _rank(rows):
    rows = [list(map(Fraction, r)) for r in rows]
    rk = 0
    ncol = len(rows[0]) if rows else 0
    for c in range(ncol):
        piv = None
        for i in range(rk, len(rows)):
            if rows[i][c] != 0:
                piv = i
                break
        if piv is None:
            continue
        rows[rk], rows[piv] = rows[piv], rows[rk]
        for i in range(len(rows)):
            if i != rk and rows[i][c] != 0:
                f = rows[i][c] / rows[rk][c]
                rows[i] = [a - f * b for a, b in zip(rows[i], rows[rk])]
        rk += 1
    return rk


def check_matrix(m, frees):
    """run the real solve on a concrete matrix; -> None or failure description"""
    from Geometry3D.utils.solver import solve
    N = len(m[0]) - 1
    A = [r[:N] for r in m]
    rA, rAug = _rank(A), _rank(m)
    consistent = rA == rAug
    try:
        sol = solve([list(r) for r in m])
    except Exception as e:
        return "solve raised %r" % (e,)
    if bool(sol) != consistent:
        return "truthiness %s but system is %sconsistent" % (bool(sol), "" if consistent else "in")
    if not consistent:
        return None
    if sol.varargs != N - rA:
        return "varargs %s, expected %d" % (sol.varargs, N - rA)
    if sol.exact != (sol.varargs == 0):
        return "exact flag wrong"
    for fv in frees:
        try:
            x = sol(*fv[: sol.varargs])
        except Exception as e:
            return "call raised %r" % (e,)
        if len(x) != N or any(v is None for v in x):
            return "result %r contains None" % (x,)
        for r in m:
            lhs = sum(Fraction(r[j]) * Fraction(x[j]) for j in range(N))
            if abs(lhs - r[N]) > Fraction(1, 10 ** 9):
                return "result %r violates equation %r" % (x, r)
    return None


def bounded_shape(R, N, seed, limit):
    import random
    from g3dvc.engine import load_repo
    load_repo()
    vals = [-2, -1, 0, 1, 2]
    total = 5 ** (R * (N + 1))
    frees = [(1, 1, 1), (2, -3, Fraction(1, 2))]
    rng = random.Random(seed * 7919 + R * 10 + N)
    ev = 0
    classes = set()
    failures = []
    samples = []

    def gen():
        if total <= limit:
            for t in itertools.product(vals, repeat=R * (N + 1)):
                yield t
        else:
            for _ in range(limit):
                yield tuple(rng.choice(vals) for _ in range(R * (N + 1)))

    for t in gen():
        m = [list(t[i * (N + 1):(i + 1) * (N + 1)]) for i in range(R)]
        ev += 1
        A = [r[:N] for r in m]
        klass = "%dx%d rank%d/%d zerocols%s" % (R, N, _rank(A), _rank(m), "".join("1" if all(r[j] == 0 for r in m) else "0" for j in range(N)))
        classes.add(klass)
        f = check_matrix(m, frees)
        if f and len(failures) < 5:
            failures.append(dict(case=dict(matrix=m), what=f, **{"class": klass}))
        if len(samples) < 2 and ev % 97 == 5:
            samples.append(dict(matrix=m, klass=klass))
    return dict(evaluations=ev, classes=sorted(classes), failures=failures, samples=samples, exhaustive=total <= limit)


def bounded_dependent(seed, n):
    """rank-deficient consistent systems with inexact quotients: 3 equations whose third row is a small integer combination of the first two, entries
    in {-3..3} or half-integers, given as native ints / floats (a rounding residue in the row that should vanish must not count as an equation)"""
    import random
    from g3dvc.engine import load_repo
    load_repo()
    rng = random.Random(seed * 31 + 16)
    ev = 0
    classes = set()
    failures = []
    samples = []
    frees = [(1, 1, 1), (2, -3, Fraction(1, 2))]
    for it in range(n):
        N = rng.choice((2, 3))
        half = it % 2 == 1
        val = lambda: (rng.randint(-4, 4) / 2.0) if half else rng.randint(-3, 3)
        r1, r2 = [val() for _ in range(N + 1)], [val() for _ in range(N + 1)]
        a, b = rng.randint(-3, 3), rng.randint(-3, 3)
        r3 = [a * x + b * y for x, y in zip(r1, r2)]
        rows = [r1, r2, r3]
        rng.shuffle(rows)
        m = [list(r) for r in rows]
        if half:
            m = [[float(x) for x in r] for r in m]
        ev += 1
        A = [r[:N] for r in m]
        klass = "dependent 3x%d %s rank%d/%d" % (N, "half-integers" if half else "{-3..3}", _rank(A), _rank(m))
        classes.add(klass)
        f = check_matrix(m, frees)
        if f and len(failures) < 5 and klass not in [x["class"] for x in failures]:
            failures.append(dict(case=dict(matrix=m), what=f, **{"class": klass}))
        if len(samples) < 2 and ev % 97 == 5:
            samples.append(dict(matrix=m, klass=klass))
    return dict(evaluations=ev, classes=sorted(classes), failures=failures, samples=samples)


def replay_case(case):
    from g3dvc.engine import load_repo
    load_repo()
    f = check_matrix(case["matrix"], [(1, 1, 1), (2, -3, Fraction(1, 2))])
    return dict(fails=bool(f), observed=f)


def bounded(tier, seed):
    lim = 20000 if tier == "quick" else 400000
    shapes = [(1, 2), (1, 3), (2, 2), (2, 3), (3, 2), (3, 3)]
    return [("matrices{-2..2}[%dx%d]" % (R, N), bounded_shape, (R, N, seed, lim), 900) for R, N in shapes] + [
        ("dependent rows with inexact quotients ({-3..3}, half-integers; native ints / floats)", bounded_dependent, (seed, 20000 if tier == "quick" else 400000), 900)]
