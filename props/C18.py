"""C18 - Vector arithmetic is exact component algebra and preserves numeric type.

Contracts on the real Vector / Point methods: every operation returns a new
object whose components are the textbook formulas of the operands' components
(ring identities over symbolic reals, one path each), leaves its operands
untouched (frame), and the three algebraic consequences hold.  length /
normalized / angle are tied to the dot product.  Type preservation and
promotion are decided natively over the finite set of numeric-type
combinations (labelled bounded: exhaustive over type tags, sampled values).
"""
import itertools
from decimal import Decimal
from fractions import Fraction

from g3dvc.runner import Group
from g3dvc.sym import Sym, SymBool, F, And, Or, Not, Implies, Iff
from g3dvc import spec as SP
from contracts import common as C

PROPERTY = "C18"
LEVEL = "proof"
ASSUMES = ["A1", "A2", "A3", "A6"]
MANIFEST = dict(
    text=("Deductive proof on the real Vector/Point methods with symbolic real components: +, -, scalar * from both sides, unary -, dot, cross, Vector(P1,P2), the constructor forms, "
          "Point.pv/move/indexing return exactly the textbook component formulas as new objects and leave their operands unchanged; a.(a x b)=0, anticommutativity and Lagrange's identity are "
          "proved through the real cross/dot code; length satisfies r>=0, r^2=v.v; normalized returns k*v with k>0 and unit length and raises on the zero vector; "
          "angle's acos argument lies in [-1,1] (Cauchy-Schwarz) so the result is in [0,pi]; zero(), the unit vectors, origin(), the axes and coordinate planes return fresh objects that are what their names say even after earlier results were mutated or moved. All are for every real input, no bound."),
    note=("Real arithmetic (A1): float rounding in length/normalized/angle is not modelled. Type preservation/promotion (int, Fraction, Decimal, float, user ring type) is a finite "
          "statement about type tags; it is checked natively for every tag combination with sampled values and every constructor form (three coordinates, one sequence, two Points - also Points whose coordinates were assigned one by one) (labelled bounded stand-in, not counted as proved)."),
    technique='contract-based deductive verification of the Vector / Point operations as polynomial identities through the real code (z3) + labelled native enumeration of numeric type tags and constructor forms',
    design_ref="DESIGN.md section 9 (C18)",
)
EXPLANATION = "All component formulas are straight-line code: one path each, polynomial identities discharged by z3."
VEC = "Geometry3D.utils.vector:Vector."
PT = "Geometry3D.geometry.point:Point."


def _frame(vc, label, before, objs):
    vc.ensure("frame: %s unchanged" % label, all(vc.snapshot(o) == b for o, b in zip(objs, before)))


def _is_new(r, *ops):
    return all(r is not o for o in ops) and all(getattr(r, "_v", None) is not getattr(o, "_v", 0) for o in ops)


def binop(name, fn, spec, scalar_left=False, scalar_right=False, scalar_result=False):
    def h(vc):
        g = C.G()
        a = vc.real("k") if scalar_left else C.V(vc, "a")
        b = vc.real("k") if scalar_right else C.V(vc, "b")
        objs = [o for o in (a, b) if isinstance(o, g.Vector)]
        before = [vc.snapshot(o) for o in objs]
        out = vc.call(fn, a, b)
        vc.ensure("%s does not raise" % name, out.returned)
        if not out.returned:
            vc.note(repr(out.value))
            return
        r = out.value
        av = SP.vec(a) if isinstance(a, g.Vector) else a
        bv = SP.vec(b) if isinstance(b, g.Vector) else b
        exp = spec(av, bv)
        if scalar_result:
            vc.ensure("%s = textbook formula" % name, SP.eq(r, exp) if not isinstance(r, g.Vector) else False)
        else:
            ok = isinstance(r, g.Vector)
            vc.ensure("%s returns a Vector" % name, ok)
            if ok:
                vc.ensure("%s components = textbook formula" % name, SP.veq(SP.vec(r), exp))
                vc.ensure("%s returns a new object" % name, _is_new(r, *objs))
                if vc.symbolic:
                    vc.ensure("probe: %s result is always zero" % name, SP.vzero(SP.vec(r)), kind="must-fail")
        _frame(vc, name + " operands", before, objs)

    return h


def h_neg(vc):
    g = C.G()
    a = C.V(vc, "a")
    before = vc.snapshot(a)
    out = vc.call(lambda: -a)
    vc.ensure("neg does not raise", out.returned)
    if out.returned:
        r = out.value
        vc.ensure("neg returns a Vector", isinstance(r, g.Vector))
        if isinstance(r, g.Vector):
            vc.ensure("neg components", SP.veq(SP.vec(r), SP.neg(SP.vec(a))))
            vc.ensure("neg returns a new object", _is_new(r, a))
    vc.ensure("frame: operand unchanged", vc.snapshot(a) == before)


def h_ctor(vc):
    g = C.G()
    x, y, z = vc.real("x"), vc.real("y"), vc.real("z")
    for label, mk in (("Vector(x,y,z)", lambda: g.Vector(x, y, z)), ("Vector([x,y,z])", lambda: g.Vector([x, y, z])),
                      ("Point(x,y,z).pv()", lambda: g.Point(x, y, z).pv()), ("Point([x,y,z])", lambda: g.Point([x, y, z])),
                      ("Point(Vector)", lambda: g.Point(g.Vector(x, y, z)))):
        out = vc.call(mk)
        vc.ensure(label + " does not raise", out.returned)
        if out.returned:
            vc.ensure(label + " components as given", SP.veq(SP.vec(out.value), (x, y, z)))
    # the sequence forms copy their argument: changing the caller's list afterwards, or one of two objects built from it, changes nothing else
    t = vc.real("t")
    for label, ctor in (("Vector(list)", g.Vector), ("Point(list)", g.Point)):
        lst = [x, y, z]
        o1 = ctor(lst)
        o2 = ctor(lst)
        lst[0] = t
        vc.ensure(label + ": changing the caller's list afterwards does not change the object", SP.veq(SP.vec(o1), (x, y, z)))
        o1[1] = t
        vc.ensure(label + ": a coordinate assigned to one object changes neither the other object built from the same list nor the list",
                  And(SP.veq(SP.vec(o2), (x, y, z)), SP.eq(lst[1], y), SP.eq(lst[2], z)))
    p1, p2 = C.P(vc, "p1"), C.P(vc, "p2")
    b1, b2 = vc.snapshot(p1), vc.snapshot(p2)
    out = vc.call(g.Vector, p1, p2)
    vc.ensure("Vector(P1,P2) does not raise", out.returned)
    if out.returned:
        vc.ensure("Vector(P1,P2) = P2 - P1", SP.veq(SP.vec(out.value), SP.sub(SP.vec(p2), SP.vec(p1))))
    vc.ensure("frame: points unchanged", vc.snapshot(p1) == b1 and vc.snapshot(p2) == b2)
    for label, mk, exp in (("zero()", g.Vector.zero, (0, 0, 0)), ("x_unit_vector()", g.x_unit_vector, (1, 0, 0)), ("y_unit_vector()", g.y_unit_vector, (0, 1, 0)),
                           ("z_unit_vector()", g.z_unit_vector, (0, 0, 1)), ("origin()", g.origin, (0, 0, 0))):
        out = vc.call(mk)
        vc.ensure(label + " is what its name says", And(out.returned, SP.veq(SP.vec(out.value), exp)) if out.returned else False)
    # the factory functions hand out fresh objects: mutating a result (or moving an object built from it) does not change what they return later
    for label, mk, exp in (("zero()", g.Vector.zero, (0, 0, 0)), ("x_unit_vector()", g.x_unit_vector, (1, 0, 0)), ("origin()", g.origin, (0, 0, 0))):
        first = mk()
        first[0] = x
        first[2] = y
        if label != "origin()":
            ln = g.Line(mk(), g.Vector(1, 2, 2))  # Line(Vector, Vector) keeps the support vector it is given
            ln.move(g.Vector(2, -1, 2))
        else:
            mk().move(g.Vector(2, -1, 2))
        out = vc.call(mk)
        vc.ensure(label + " is still what its name says after earlier results were mutated / moved", And(out.returned, SP.veq(SP.vec(out.value), exp)) if out.returned else False)
    for label, mk in (("x_axis()", g.x_axis), ("xy_plane()", g.xy_plane)):
        o1 = mk()
        o1.move(g.Vector(1, 2, 3))
        o2 = vc.call(mk)
        vc.ensure(label + " is unaffected by moving an earlier result", o2.returned and vc.snapshot(o2.value) == vc.snapshot(mk()) and SP.veq(SP.vec(o2.value.sv if hasattr(o2.value, "sv") else o2.value.p), (0, 0, 0)) is not False)
    for n_args in (0, 4):
        out = vc.call(g.Vector, *([x] * n_args))
        vc.ensure("Vector() with %d arguments raises TypeError" % n_args, out.raised(TypeError))
    p = g.Point(x, y, z)
    v = g.Vector(x, y, z)
    vc.ensure("indexing", And(*[And(SP.eq(p[i], c), SP.eq(v[i], c)) for i, c in enumerate((x, y, z))]))
    w = vc.real("w")
    v[1] = w
    p[2] = w
    vc.ensure("item assignment", And(SP.eq(v[1], w), SP.eq(v[0], x), SP.eq(v[2], z), SP.eq(p.z, w), SP.eq(p.x, x), SP.eq(p.y, y)))


def h_identities(vc):
    g = C.G()
    a, b = C.V(vc, "a"), C.V(vc, "b")
    c = a.cross(b)
    c2 = b.cross(a)
    vc.ensure("a.(a x b) = 0", SP.eqz(a * c))
    vc.ensure("b.(a x b) = 0", SP.eqz(b * c))
    vc.ensure("a x b = -(b x a)", SP.veq(SP.vec(c), SP.vec(-c2)))
    vc.ensure("|a x b|^2 = |a|^2 |b|^2 - (a.b)^2", SP.eq(c * c, (a * a) * (b * b) - (a * b) * (a * b)))


def h_length(vc):
    g = C.G()
    a = C.V(vc, "a")
    before = vc.snapshot(a)
    out = vc.call(a.length)
    vc.ensure("length does not raise", out.returned)
    if out.returned:
        r = out.value
        vc.ensure("length >= 0", SP.gez(r))
        vc.ensure("length^2 = v.v", SP.eq(r * r, SP.norm2(SP.vec(a))))
        vc.ensure("length = 0 <=> v = 0", Iff(SP.eqz(r), SP.vzero(SP.vec(a))))
        out2 = vc.call(abs, a)
        vc.ensure("abs(v) is the length", SP.eq(out2.value, r) if out2.returned else False)
    vc.ensure("frame: operand unchanged", vc.snapshot(a) == before)


def h_assign_then_measure(vc):
    """a coordinate assigned after a first round of measures: every measure afterwards is that of the vector with the new coordinate
    (nothing computed before the assignment may survive it)"""
    g = C.G()
    a, b = C.V(vc, "a"), C.V(vc, "b")
    t = vc.real("t")
    for i in range(3):
        v = g.Vector(*SP.vec(a))
        first = vc.call(lambda: (v.length(), v * v, v * b, v.cross(b), abs(v)))
        vc.ensure("measures before the assignment do not raise", first.returned)
        v[i] = t
        new = list(SP.vec(a))
        new[i] = t
        vc.ensure("v[%d] = t stores t and nothing else" % i, SP.veq(SP.vec(v), tuple(new)))
        out = vc.call(v.length)
        vc.ensure("length() after v[%d] = t does not raise" % i, out.returned)
        if out.returned:
            r = out.value
            vc.ensure("length() after v[%d] = t is the length of the changed vector" % i, And(SP.gez(r), SP.eq(r * r, SP.norm2(tuple(new)))))
            o2 = vc.call(abs, v)
            vc.ensure("abs(v) after v[%d] = t agrees" % i, o2.returned and SP.eq(o2.value, r))
        o3 = vc.call(lambda: (v * v, v * b))
        vc.ensure("dot products after v[%d] = t use the new coordinate" % i, o3.returned and And(SP.eq(o3.value[0], SP.norm2(tuple(new))), SP.eq(o3.value[1], SP.dot(tuple(new), SP.vec(b)))))
        o4 = vc.call(v.cross, b)
        vc.ensure("cross product after v[%d] = t uses the new coordinate" % i, o4.returned and SP.veq(SP.vec(o4.value), SP.cross(tuple(new), SP.vec(b))))
        if vc.symbolic:
            nz = SP.vnonzero(tuple(new))
        else:
            nz = any(x != 0 for x in new)
        o5 = vc.call(v.normalized)
        if o5.returned:
            rv = SP.vec(o5.value)
            vc.ensure("normalized() after v[%d] = t: unit length, same direction as the changed vector" % i, And(SP.eq(SP.norm2(rv), 1), SP.collinear(rv, tuple(new)), SP.gtz(SP.dot(rv, tuple(new)))))
        else:
            vc.ensure("normalized() after v[%d] = t raises only for the zero vector" % i, Not(nz))
    p, q = C.P(vc, "p"), C.P(vc, "q")
    d0 = vc.call(p.distance, q)
    p[1] = t
    newp = list(SP.vec(p))
    vc.ensure("p[1] = t stores t", SP.eq(newp[1], t))
    d1 = vc.call(p.distance, q)
    vc.ensure("Point.distance after p[1] = t is the distance of the changed point", d1.returned and And(SP.gez(d1.value), SP.eq(d1.value * d1.value, SP.norm2(SP.sub(tuple(newp), SP.vec(q))))))
    pv = vc.call(p.pv)
    vc.ensure("pv() after p[1] = t is the changed position vector", pv.returned and SP.veq(SP.vec(pv.value), tuple(newp)))


def h_normalized(vc):
    g = C.G()
    a = C.V(vc, "a")
    av = SP.vec(a)
    before = vc.snapshot(a)
    out = vc.call(a.normalized)
    if vc.symbolic:
        nz = SP.vnonzero(av)
    else:
        nz = any(x != 0 for x in av)
    if out.raised():
        vc.ensure("normalized raises only ZeroDivisionError and only on the zero vector", And(isinstance(out.value, ZeroDivisionError), Not(nz)))
        return
    vc.ensure("normalized of the zero vector raises", nz)
    r = out.value
    vc.ensure("normalized returns a Vector", isinstance(r, g.Vector))
    if not isinstance(r, g.Vector):
        return
    rv = SP.vec(r)
    vc.ensure("|normalized(v)|^2 = 1", SP.eq(SP.norm2(rv), 1))
    vc.ensure("normalized(v) is parallel to v", SP.collinear(rv, av))
    vc.ensure("normalized(v) points the same way", SP.gtz(SP.dot(rv, av)))
    out2 = vc.call(a.unit)
    vc.ensure("unit() is normalized()", SP.veq(SP.vec(out2.value), rv) if out2.returned else False)
    vc.ensure("frame: operand unchanged", vc.snapshot(a) == before)


def h_angle(vc):
    import math
    g = C.G()
    a, b = C.V(vc, "a"), C.V(vc, "b")
    av, bv = SP.vec(a), SP.vec(b)
    vc.assume(And(SP.vnonzero(av), SP.vnonzero(bv)), "both vectors non-zero")
    if vc.symbolic:
        cr = SP.cross(av, bv)
        vc.hint("Lagrange", SP.eq(SP.norm2(av) * SP.norm2(bv) - SP.dot(av, bv) * SP.dot(av, bv), cr[0] * cr[0] + cr[1] * cr[1] + cr[2] * cr[2]))
        vc.ghost(SP.norm2(av), SP.norm2(bv), SP.dot(av, bv), cr[0], cr[1], cr[2])
    before = (vc.snapshot(a), vc.snapshot(b))
    out = vc.call(a.angle, b)
    vc.ensure("angle does not raise (acos domain, division)", out.returned)
    if not out.returned:
        vc.note(repr(out.value))
        return
    r = out.value
    vc.ensure("0 <= angle <= pi", And(SP.gez(r), SP.gez(math.pi - r)))
    d = SP.dot(av, bv)
    vc.ensure("angle < pi/2 <=> a.b > 0", Iff(SP.gtz(math.pi / 2 - r), SP.gtz(d)))
    vc.ensure("angle = pi/2 <=> a.b = 0", Iff(SP.eqz(r - math.pi / 2), SP.eqz(d)))
    cr_ = SP.cross(av, bv)
    vc.ensure("angle = 0 <=> parallel with a.b > 0", Iff(SP.eqz(r), And(SP.vzero(cr_), SP.gtz(d))))
    vc.ensure("angle = pi <=> anti-parallel (a x b = 0, a.b < 0)", Iff(SP.eqz(r - math.pi), And(SP.vzero(cr_), SP.ltz(d))))
    vc.ensure("frame: operands unchanged", (vc.snapshot(a), vc.snapshot(b)) == before)


def h_point_move(vc):
    g = C.G()
    p = C.P(vc, "p")
    v = C.V(vc, "v")
    p0 = SP.vec(p)
    bv = vc.snapshot(v)
    out = vc.call(p.move, v, _mutates=(p,))
    vc.ensure("Point.move does not raise", out.returned)
    if out.returned:
        r = out.value
        exp = SP.add(p0, SP.vec(v))
        vc.ensure("Point.move translates the receiver", SP.veq(SP.vec(p), exp))
        vc.ensure("Point.move returns a new Point", isinstance(r, g.Point) and r is not p)
        if isinstance(r, g.Point):
            vc.ensure("Point.move result coordinates", SP.veq(SP.vec(r), exp))
    vc.ensure("frame: vector unchanged", vc.snapshot(v) == bv)
    out = vc.call(p.move, 3)
    vc.ensure("Point.move with a non-Vector raises NotImplementedError", out.raised(NotImplementedError))


def groups(tier):
    from Geometry3D.utils.vector import Vector
    gs = []

    def add(name, h, targets, **kw):
        gs.append(Group(name, h, targets, world="COORD", timeout_s=120, **kw))

    add("Vector.__add__", binop("a + b", lambda a, b: a + b, SP.add), [VEC + "__add__"])
    add("Vector.__sub__", binop("a - b", lambda a, b: a - b, SP.sub), [VEC + "__sub__"])
    add("Vector.__mul__[scalar]", binop("a * k", lambda a, k: a * k, lambda a, k: SP.scale(k, a), scalar_right=True), [VEC + "__mul__"])
    add("Vector.__rmul__[scalar]", binop("k * a", lambda k, a: k * a, lambda k, a: SP.scale(k, a), scalar_left=True), [VEC + "__rmul__"])
    add("Vector.__mul__[dot]", binop("a . b", lambda a, b: a * b, SP.dot, scalar_result=True), [VEC + "__mul__"])
    add("Vector.cross", binop("a x b", lambda a, b: a.cross(b), SP.cross), [VEC + "cross"])
    add("Vector.__neg__", h_neg, [VEC + "__neg__"])
    add("constructors/indexing", h_ctor, [VEC + "__init__", PT + "__init__", PT + "pv", VEC + "__getitem__", VEC + "__setitem__", PT + "__getitem__", PT + "__setitem__",
                                          VEC + "zero", "Geometry3D.utils.util:unify_types"])
    add("identities", h_identities, [VEC + "cross", VEC + "__mul__"])
    add("Vector.length", h_length, [VEC + "length"])
    add("Vector.normalized", h_normalized, [VEC + "normalized"])
    add("coordinate assignment, then measures", h_assign_then_measure, [VEC + "__setitem__", VEC + "length", VEC + "normalized", VEC + "__mul__", VEC + "cross", PT + "__setitem__", PT + "distance", PT + "pv"])
    add("Vector.angle", h_angle, [VEC + "angle"], stubs=[(C.T_PAR, C.x_parallel), (C.T_VEQ, C.x_vector_eq), (C.T_ORT, C.x_orthogonal)])
    add("Point.move", h_point_move, [PT + "move"])
    return gs


# ---------------------------------------------------------------------------
# bounded stand-in: type preservation / promotion over all tag combinations
# ---------------------------------------------------------------------------

class Ring(object):
    """a user-defined ring type (exact rationals inside)"""

    def __init__(self, v=0):
        self.v = v.v if isinstance(v, Ring) else Fraction(v)

    @staticmethod
    def _o(o):
        if isinstance(o, Ring):
            return o.v
        if isinstance(o, (int, Fraction)):
            return Fraction(o)
        return None

    def __add__(self, o):
        o = self._o(o)
        return NotImplemented if o is None else Ring(self.v + o)

    __radd__ = __add__

    def __sub__(self, o):
        o = self._o(o)
        return NotImplemented if o is None else Ring(self.v - o)

    def __rsub__(self, o):
        o = self._o(o)
        return NotImplemented if o is None else Ring(o - self.v)

    def __mul__(self, o):
        o = self._o(o)
        return NotImplemented if o is None else Ring(self.v * o)

    __rmul__ = __mul__

    def __neg__(self):
        return Ring(-self.v)

    def __eq__(self, o):
        o = self._o(o)
        return NotImplemented if o is None else self.v == o

    def __hash__(self):
        return hash(self.v)

    def __format__(self, spec):
        return format(float(self.v), spec)

    def __repr__(self):
        return "Ring(%s)" % self.v


TYPES = [("int", int), ("float", float), ("Decimal", Decimal), ("Fraction", Fraction), ("Ring", Ring)]
ORDER = {"Ring": 0, "Fraction": 1, "Decimal": 2, "float": 3, "int": 4}


def _val(T, k):
    return T(k) if T is not float else float(k) / 2


def bounded_types(seed):
    from g3dvc.engine import load_repo
    g = load_repo()
    Vector, Point = g.Vector, g.Point
    ev = 0
    classes = set()
    failures = []
    samples = []

    def fail(what, case):
        if len(failures) < 5:
            failures.append(dict(case=case, what=what, **{"class": what.split(":")[0]}))

    triples = [(3, -5, 7), (-2, 4, 9), (1, 1, -6)]
    for name, T in TYPES:
        for ta, tb in itertools.product(triples, repeat=2):
            a = Vector(*[_val(T, k) for k in ta])
            b = Vector(*[_val(T, k) for k in tb])
            k = _val(T, 3)
            ops = {"add": lambda: a + b, "sub": lambda: a - b, "mulk": lambda: a * k, "rmulk": lambda: k * a, "neg": lambda: -a, "cross": lambda: a.cross(b),
                   "p1p2": lambda: Vector(Point(*a), Point(*b)), "pv": lambda: Point(*a).pv()}
            for on, f in ops.items():
                ev += 1
                classes.add("%s:%s" % (name, on))
                try:
                    r = f()
                except Exception as e:
                    fail("%s:%s raised %r" % (name, on, e), dict(type=name, a=str(ta), b=str(tb), op=on))
                    continue
                if not all(type(c) is T for c in r):
                    fail("%s:%s components have types %s" % (name, on, [type(c).__name__ for c in r]), dict(type=name, a=str(ta), b=str(tb), op=on))
            ev += 1
            d = a * b
            classes.add("%s:dot" % name)
            if type(d) is not T:
                fail("%s:dot has type %s" % (name, type(d).__name__), dict(type=name, a=str(ta), b=str(tb), op="dot"))
        if len(samples) < 3:
            va = Vector(*[_val(T, k) for k in triples[0]])
            vb = Vector(*[_val(T, k) for k in triples[1]])
            samples.append(dict(type=name, op="a x b", a=str(triples[0]), b=str(triples[1]), result=repr(list(va.cross(vb)))))
    # promotion inside one constructor call: every mixture of three tags
    for (n1, T1), (n2, T2), (n3, T3) in itertools.product(TYPES, repeat=3):
        names = (n1, n2, n3)
        best = min(names, key=lambda n: ORDER[n])
        if "Decimal" in names and best == "Fraction":
            continue  # Fraction(Decimal) works, but keep to what the docstring orders: still checked below
        for ctor_name, ctor in (("Vector", Vector), ("Point", Point)):
            ev += 1
            classes.add("promote:%s" % "+".join(sorted(set(names))))
            try:
                obj = ctor(_val(T1, 1), _val(T2, 2), _val(T3, 3))
            except Exception as e:
                fail("promote:%s(%s) raised %r" % (ctor_name, names, e), dict(types=names, ctor=ctor_name))
                continue
            got = [type(c).__name__ for c in obj]
            if any(t != best for t in got):
                fail("promote:%s(%s) gave %s, expected %s" % (ctor_name, names, got, best), dict(types=names, ctor=ctor_name))
        # the other constructor forms of Vector: one sequence argument; two Points, the second of which got its coordinates assigned one by one
        # (item and attribute assignment keep whatever is assigned, so the Point holds a type mixture)
        Pm = Point(1, 2, 3)
        Pm[0] = _val(T1, 1)
        Pm.y = _val(T2, 2)
        Pm[2] = _val(T3, 3)
        for form, mk in (("Vector(sequence)", lambda: Vector([_val(T1, 1), _val(T2, 2), _val(T3, 3)])), ("Vector(Point, Point with assigned coordinates)", lambda: Vector(Point(0, 0, 0), Pm)),
                         ("Point(Vector of a mixture)", lambda: Point(Pm.pv()))):
            ev += 1
            classes.add("promote-forms:%s" % form)
            try:
                obj = mk()
            except Exception as e:
                fail("promote-forms:%s(%s) raised %r" % (form, names, e), dict(types=names, ctor=form))
                continue
            got = [type(c).__name__ for c in obj]
            if any(t != best for t in got):
                fail("promote-forms:%s with %s gave %s, expected %s" % (form, names, got, best), dict(types=names, ctor=form))
    return dict(evaluations=ev, classes=sorted(classes), failures=failures, samples=samples)


def bounded_numeric(seed):
    """length / normalized / angle consistency over int, float, Fraction vectors of magnitudes 1e-6..1e6"""
    import math
    import random
    from g3dvc.engine import load_repo
    g = load_repo()
    Vector = g.Vector
    rng = random.Random(seed + 18)
    ev = 0
    classes = set()
    failures = []
    samples = []
    for name, T in (("int", int), ("float", float), ("Fraction", Fraction)):
        for mag in (1e-6, 1e-3, 1, 1e3, 1e6):
            for _ in range(40):
                comps = [rng.randint(-9, 9) for _ in range(3)]
                if not any(comps):
                    continue
                if T is int:
                    if mag < 1:
                        continue
                    v = Vector(*[int(c * mag) for c in comps])
                elif T is float:
                    v = Vector(*[float(c) * mag for c in comps])
                else:
                    v = Vector(*[Fraction(c) * Fraction(mag).limit_denominator(10 ** 6) for c in comps])
                w = Vector(*[rng.randint(-9, 9) or 1 for _ in range(3)])
                ev += 1
                classes.add("%s:%g" % (name, mag))
                try:
                    L = v.length()
                    n = v.normalized()
                    ang = v.angle(w)
                except Exception as e:
                    if len(failures) < 5:
                        failures.append(dict(case=dict(type=name, v=[str(c) for c in v], w=[str(c) for c in w]), what="numeric:raised %r" % (e,), **{"class": "numeric:raise"}))
                    continue
                ex = math.sqrt(sum(float(c) ** 2 for c in v))
                exw = math.sqrt(sum(float(c) ** 2 for c in w))
                ref = math.acos(max(-1.0, min(1.0, sum(float(a_) * float(b_) for a_, b_ in zip(v, w)) / (ex * exw))))
                ok = abs(L - ex) <= 1e-9 * ex and abs(n.length() - 1) <= 1e-9 and 0 <= ang <= math.pi and abs(ang - ref) <= 1e-7
                for kk in (2, -1, -3):  # exactly parallel / anti-parallel partners
                    a2 = v.angle(Vector(*[kk * c for c in v]))
                    ok = ok and abs(a2 - (0.0 if kk > 0 else math.pi)) <= 1e-7
                ok = ok and all(abs(float(nc) * ex - float(c)) <= 1e-9 * ex for nc, c in zip(n, v))
                if not ok and len(failures) < 5:
                    failures.append(dict(case=dict(type=name, v=[str(c) for c in v], w=[str(c) for c in w]), what="numeric:length/normalized/angle inconsistent", **{"class": "numeric:inconsistent"}))
                if len(samples) < 2:
                    samples.append(dict(type=name, v=[str(c) for c in v], length=L, angle=ang))
                # a coordinate assigned after the object was hashed / measured / compared: afterwards it behaves like a fresh object with that coordinate
                idx = rng.randrange(3)
                newc = [c for c in v]
                newc[idx] = newc[idx] + (T(7) if T is not Fraction else Fraction(7, 2))
                P0 = g.Point(*[c for c in v])
                hash(v), hash(P0), v == w, P0 == g.Point(*w), v.parallel(w), v.orthogonal(w)
                v[idx] = newc[idx]
                P0[idx] = newc[idx]
                fv, fp = Vector(*newc), g.Point(*newc)
                ev += 1
                classes.add("assign:%s" % name)
                try:
                    okA = (v == fv) and hash(v) == hash(fv) and (P0 == fp) and hash(P0) == hash(fp) and abs(v.length() - fv.length()) <= 1e-12 * max(1.0, fv.length()) \
                        and v.parallel(w) == fv.parallel(w) and v.orthogonal(w) == fv.orthogonal(w) and abs(v.angle(w) - fv.angle(w)) <= 1e-12 and len({v, fv}) == 1 and len({P0, fp}) == 1
                except Exception as e:
                    okA = False
                if not okA and len(failures) < 5:
                    failures.append(dict(case=dict(type=name, v=[str(c) for c in fv], index=idx), what="assign:after v[%d] = x the object does not behave like a fresh object with that coordinate (==, hash, length, angle, parallel, orthogonal, set)" % idx, **{"class": "assign:" + name}))
    # small and near-pi angles: |a||b| sin(angle) = |a x b| (angle against atan2(|a x b|, a.b), which is accurate there)
    for name, T in (("int", int), ("float", float), ("Fraction", Fraction)):
        for k_ in (1024, 8192, 131072, 500000):
            for base, off in (((1, 0, 0), (0, 1, 0)), ((2, 1, 2), (1, 0, -1)), ((0, -3, 4), (5, 0, 0))):
                for sign in (1, -1):
                    a_ = Vector(*[T(c) for c in base])
                    b_ = Vector(*[T(sign * k_ * c + o) for c, o in zip(base, off)])
                    ev += 1
                    classes.add("small-angle:%s" % name)
                    try:
                        ang = a_.angle(b_)
                    except Exception as e:
                        ang = None
                    fa, fb = [float(c) for c in a_], [float(c) for c in b_]
                    cr = (fa[1] * fb[2] - fa[2] * fb[1], fa[2] * fb[0] - fa[0] * fb[2], fa[0] * fb[1] - fa[1] * fb[0])
                    ref = math.atan2(math.sqrt(sum(c * c for c in cr)), sum(p_ * q_ for p_, q_ in zip(fa, fb)))
                    if (ang is None or abs(ang - ref) > 1e-8) and len(failures) < 5:
                        failures.append(dict(case=dict(type=name, a=[str(c) for c in a_], b=[str(c) for c in b_]), what="small-angle:angle %r, but atan2(|a x b|, a.b) = %r" % (ang, ref), **{"class": "small-angle:" + name}))
    return dict(evaluations=ev, classes=sorted(classes), failures=failures, samples=samples)


def replay_case(case):
    r1 = bounded_types(0)
    r2 = bounded_numeric(0)
    f = r1["failures"] + r2["failures"]
    return dict(fails=bool(f), observed=f[:3])


def bounded(tier, seed):
    return [("type-tags", bounded_types, (seed,), 300), ("numeric-consistency", bounded_numeric, (seed,), 300)]
