"""Shared contract vocabulary: symbolic/concrete operand builders (the type
invariants of the inputs) and the *exact* contracts of the tolerance
predicates, used as stubs by every caller (DESIGN section 4).

The exact contract of a tolerance predicate P testing a quantity q is
    requires adm(q) := q = 0  or  |q| >= 4*eps*scale      (admission, logged)
    ensures  result <=> q = 0
It is derived from the tolerance contract of the real predicate
    |q| <= eps/1000*scale => True,   |q| >= 4*eps*scale => False
which is itself proved on the real body with a symbolic eps (props/C19, C05,
C08).
"""
from fractions import Fraction

import z3

from g3dvc import sym as S
from g3dvc import spec as SP
from g3dvc.engine import load_repo
from g3dvc.sym import Sym, SymBool, F, And, Or, Not, Implies, Iff

EPS0 = Fraction(1, 10 ** 10)
ADM = 4  # margin factor of the admission predicate


def G():
    return load_repo()


# ---------------------------------------------------------------------------
# operand builders (work in symbolic and in concrete mode)
# ---------------------------------------------------------------------------

def V(vc, name):
    g = G()
    return g.Vector(vc.real(name + ".x"), vc.real(name + ".y"), vc.real(name + ".z"))


def P(vc, name):
    g = G()
    return g.Point(vc.real(name + ".x"), vc.real(name + ".y"), vc.real(name + ".z"))


def line(vc, name):
    """a valid Line: direction not zero (invariant established by Line.__init__, C15)"""
    g = G()
    l = g.Line.__new__(g.Line)
    l.sv = V(vc, name + ".sv")
    l.dv = V(vc, name + ".dv")
    vc.assume(SP.vnonzero(SP.vec(l.dv)), "invariant Line: dv != 0")
    return l


def plane(vc, name):
    """a valid Plane: unit normal (invariant established by Plane._init_pn, C17)"""
    g = G()
    p = g.Plane.__new__(g.Plane)
    p.p = P(vc, name + ".p")
    p.n = V(vc, name + ".n")
    vc.assume(SP.eq(SP.norm2(SP.vec(p.n)), 1), "invariant Plane: |n| = 1")
    return p


def segment(vc, name):
    """a valid Segment: end points differ, cached carrier line = Line(start, end)"""
    g = G()
    s = g.Segment.__new__(g.Segment)
    s.start_point = P(vc, name + ".a")
    s.end_point = P(vc, name + ".b")
    a, b = SP.vec(s.start_point), SP.vec(s.end_point)
    vc.assume(Not(SP.veq(a, b)), "invariant Segment: start != end")
    l = g.Line.__new__(g.Line)
    l.sv = g.Vector(*a)
    l.dv = g.Vector(*SP.sub(b, a))
    s.line = l
    return s


def halfline(vc, name):
    """a valid HalfLine: vector not zero, cached carrier line = Line(point, vector)"""
    g = G()
    h = g.HalfLine.__new__(g.HalfLine)
    h.point = P(vc, name + ".p")
    h.vector = V(vc, name + ".v")
    vc.assume(SP.vnonzero(SP.vec(h.vector)), "invariant HalfLine: vector != 0")
    l = g.Line.__new__(g.Line)
    l.sv = g.Vector(*SP.vec(h.point))
    l.dv = g.Vector(*SP.vec(h.vector))
    h.line = l
    return h


def witness(vc, name="x"):
    """a fresh point (x, y, z) as a 3-tuple: the universally quantified witness"""
    return (vc.real(name + ".x"), vc.real(name + ".y"), vc.real(name + ".z"))


# ---------------------------------------------------------------------------
# exact contracts of the tolerance predicates (stubs)
# ---------------------------------------------------------------------------

def _adm_small(vc, q, what, add=True):
    q = Sym(q)
    if q.c is not None:
        return
    vc.admit(Or(q == 0, q >= ADM * EPS0, q <= -ADM * EPS0), what, add=add)


def x_null(f):
    vc = S.engine()
    vc.hit("null")
    f = Sym(f)
    _adm_small(vc, f, "null(f): f = 0 or |f| >= 4 eps")
    return SymBool(f == 0)


def x_vector_eq(self, other):
    vc = S.engine()
    vc.hit("Vector.__eq__")
    ds = [Sym(self._v[i]) - Sym(other._v[i]) for i in range(3)]
    for d in ds:
        _adm_small(vc, d, "Vector.__eq__: each coordinate difference is 0 or >= 4 eps")
    return SymBool(And(*[d == 0 for d in ds]))


def x_point_eq(self, other):
    g = G()
    vc = S.engine()
    vc.hit("Point.__eq__")
    if not isinstance(other, g.Point):
        return False
    ds = [Sym(a) - Sym(b) for a, b in zip(SP.vec(self), SP.vec(other))]
    for d in ds:
        _adm_small(vc, d, "Point.__eq__: each coordinate difference is 0 or >= 4 eps")
    return SymBool(And(*[d == 0 for d in ds]))


def x_parallel(self, other):
    """Vector.parallel: True iff cross product is zero (zero vectors are parallel to everything)"""
    vc = S.engine()
    vc.hit("Vector.parallel")
    c = SP.cross(SP.vec(self), SP.vec(other))
    vc.admit(True, "Vector.parallel: u x v = 0 or |u x v|^2 >= 8 eps |u|^2 |v| (and u, v, u-v zero or >= 4 eps in a coordinate)", add=False)
    return SymBool(And(*[Sym(a) == 0 for a in c]))


def x_orthogonal(self, other):
    vc = S.engine()
    vc.hit("Vector.orthogonal")
    d = Sym(SP.dot(SP.vec(self), SP.vec(other)))
    _adm_small(vc, d, "Vector.orthogonal: u.v = 0 or |u.v| >= 4 eps")
    return SymBool(d == 0)


def x_line_contains_point(self, other):
    g = G()
    vc = S.engine()
    if isinstance(other, g.Point):
        vc.hit("Line.__contains__")
        vc.admit(True, "Point in Line: exactly on the line or off it by the parallel-test margin", add=False)
        return SymBool(SP.on_line(SP.vec(other), SP.vec(self.sv), SP.vec(self.dv)))
    return ORIG["Line.__contains__"](self, other)


def x_plane_contains_point(self, other):
    g = G()
    vc = S.engine()
    if isinstance(other, g.Point):
        vc.hit("Plane.__contains__")
        q = Sym(SP.dot(SP.sub(SP.vec(other), SP.vec(self.p)), SP.vec(self.n)))
        _adm_small(vc, q, "Point in Plane: n.(x-p) = 0 or |n.(x-p)| >= 4 eps")
        return SymBool(q == 0)
    return ORIG["Plane.__contains__"](self, other)


ORIG = {}


def remember_originals():
    g = G()
    ORIG.setdefault("Line.__contains__", g.Line.__dict__["__contains__"])
    ORIG.setdefault("Plane.__contains__", g.Plane.__dict__["__contains__"])
    ORIG.setdefault("Segment.__contains__", g.Segment.__dict__["__contains__"])
    ORIG.setdefault("HalfLine.__contains__", g.HalfLine.__dict__["__contains__"])


T_NULL = "Geometry3D.utils.solver:null"
T_VEQ = "Geometry3D.utils.vector:Vector.__eq__"
T_PEQ = "Geometry3D.geometry.point:Point.__eq__"
T_PAR = "Geometry3D.utils.vector:Vector.parallel"
T_ORT = "Geometry3D.utils.vector:Vector.orthogonal"
T_LINE_IN = "Geometry3D.geometry.line:Line.__contains__"
T_PLANE_IN = "Geometry3D.geometry.plane:Plane.__contains__"

EXACT_VECTOR_PREDICATES = [(T_NULL, x_null), (T_VEQ, x_vector_eq), (T_PEQ, x_point_eq), (T_PAR, x_parallel), (T_ORT, x_orthogonal)]


# ---------------------------------------------------------------------------
# rank by minors (spec of the number of free parameters of a linear system)
# ---------------------------------------------------------------------------

def _minors(A, k):
    import itertools
    R, C = len(A), len(A[0])
    out = []
    for rows in itertools.combinations(range(R), k):
        for cols in itertools.combinations(range(C), k):
            out.append(_det([[A[i][j] for j in cols] for i in rows]))
    return out


def _det(M):
    n = len(M)
    if n == 1:
        return M[0][0]
    if n == 2:
        return M[0][0] * M[1][1] - M[0][1] * M[1][0]
    tot = 0
    for j in range(n):
        sub = [[M[i][c] for c in range(n) if c != j] for i in range(1, n)]
        tot = tot + ((-1) ** j) * M[0][j] * _det(sub)
    return tot


def rank_is(A, r):
    """formula: the coefficient matrix A has rank exactly r (by minors)"""
    R, C = len(A), len(A[0])
    if r < 0 or r > min(R, C):
        return False
    lo = True if r == 0 else Or(*[Not(SP.eqz(m)) for m in _minors(A, r)])
    hi = True if r == min(R, C) else And(*[SP.eqz(m) for m in _minors(A, r + 1)])
    return And(lo, hi)
