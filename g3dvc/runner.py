"""Process scheduling: every obligation group runs in its own forked process
that is killed on wall-clock expiry (an in-process z3 call may ignore its
timeout).  A killed or crashed group is *undecided*, never a violation."""
import multiprocessing as mp
import os
import time
import traceback


class Group(object):
    """One harness = one obligation group on one or more real functions."""

    def __init__(self, name, harness, targets, stubs=(), tier="quick", timeout_s=300, expect_hits=(), world="COORD",
                 setup=None, feas_ms=3000, prove_ms=20000, max_paths=20000, patches=True, must_fail=False, classify=None,
                 serves=(), label_filter=None, callee_for=()):
        self.name = name
        self.harness = harness
        self.targets = list(targets)
        self.stubs = list(stubs)
        self.tier = tier
        self.timeout_s = timeout_s
        self.expect_hits = list(expect_hits)
        self.world = world
        self.setup = setup
        self.feas_ms = feas_ms
        self.prove_ms = prove_ms
        self.max_paths = max_paths
        self.patches = patches
        self.must_fail = must_fail  # vacuity guard: a deliberately false clause that has to be refuted
        self.classify = classify
        self.serves = list(serves)
        self.label_filter = label_filter
        # this group proves, on the real callee, a clause that the stub contract used by the named groups of the same check assumes.  A refuted
        # clause voids those proofs (their clauses become undecided and are searched natively); it is not itself a violation of the property.
        self.callee_for = list(callee_for)


def _group_main(group, conn):
    try:
        from . import engine
        res = engine.run_group(
            group.name, group.harness, stubs=group.stubs, patches=group.patches, feas_timeout_ms=group.feas_ms,
            prove_timeout_ms=group.prove_ms, max_paths=group.max_paths, expect_stub_hits=group.expect_hits, setup=group.setup, label_filter=group.label_filter)
        from . import smt
        d = res.to_json()
        d["smt_stats"] = dict(smt.STATS)
        conn.send(d)
    except BaseException as e:
        conn.send(dict(name=group.name, error="engine crash: %s\n%s" % (e, traceback.format_exc()[-1500:]), obligations=[], paths=0,
                       infeasible=0, stub_hits={}, admissions=[], unknown_feasibility=0, wall_s=0, sample_paths=[], smt_stats={}))
    finally:
        conn.close()


def _fn_main(fn, args, conn):
    try:
        conn.send(dict(ok=True, value=fn(*args)))
    except BaseException as e:
        conn.send(dict(ok=False, error="%s\n%s" % (e, traceback.format_exc()[-2500:])))
    finally:
        conn.close()


def run_parallel(jobs, nproc=None, progress=None):
    """jobs: list of (key, target_fn, args, timeout_s).  target_fn(*args, conn)
    -> dict key -> message or {'timeout': True}"""
    ctx = mp.get_context("fork")
    nproc = nproc or int(os.environ.get("G3DVC_NPROC", "0")) or (os.cpu_count() or 4)
    pending = list(jobs)
    running = []  # (key, proc, conn, deadline)
    out = {}
    while pending or running:
        while pending and len(running) < nproc:
            key, fn, args, timeout_s = pending.pop(0)
            parent, child = ctx.Pipe(duplex=False)
            p = ctx.Process(target=fn, args=tuple(args) + (child,))
            p.daemon = True
            p.start()
            child.close()
            running.append((key, p, parent, time.time() + timeout_s, time.time()))
        time.sleep(0.02)
        still = []
        for key, p, conn, deadline, started in running:
            msg = None
            if conn.poll():
                try:
                    msg = conn.recv()
                except EOFError:
                    msg = dict(error="worker died without a result")
                p.join(5)
                if p.is_alive():
                    p.kill()
            elif not p.is_alive():
                msg = dict(error="worker exited with code %s and no result" % p.exitcode)
            elif time.time() > deadline:
                p.kill()
                p.join(5)
                msg = dict(timeout=True, error="killed at the wall-clock limit")
            if msg is None:
                still.append((key, p, conn, deadline, started))
            else:
                msg["_elapsed"] = round(time.time() - started, 2)
                out[key] = msg
                if progress:
                    progress(key, msg)
                try:
                    conn.close()
                except Exception:
                    pass
        running = still
    return out


def run_groups(groups, nproc=None, progress=None):
    jobs = [(g.name, _group_main, (g,), g.timeout_s) for g in groups]
    return run_parallel(jobs, nproc, progress)


def run_functions(items, nproc=None, progress=None):
    """items: list of (key, fn, args, timeout_s); fn returns a JSON-able value"""
    jobs = [(k, _fn_main, (fn, args), t) for k, fn, args, t in items]
    return run_parallel(jobs, nproc, progress)
