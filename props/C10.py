"""C10 - distance is the exact Euclidean distance, symmetric and total."""
from g3dvc.runner import Group
from g3dvc.sym import Sym, SymBool, F, And, Or, Not, Implies, Iff
from g3dvc import spec as SP
from contracts import common as C

PROPERTY = "C10"
LEVEL = "proof"
ASSUMES = ["A1", "A2", "A5", "A6"]
DIST = "Geometry3D.calc.distance:distance"
MANIFEST = dict(
    text=("Deductive proof of the contract of distance(a, b) for every documented pair, in both argument orders and the method forms, over all real coordinates: the call never raises, the result d is >= 0, "
          "d^2 is attained by a pair of points of the operands (the foot points the code constructs) and no pair of points is closer (universal witnesses in parametric form), hence d is the minimum Euclidean distance; "
          "d = 0 exactly when the operands have a common point, which by C01's contracts is exactly when intersection(a, b) is not None. Callees (inter_line_plane, normalized, length, the tolerance predicates) enter by their contracts."),
    note="A1 real arithmetic; A5 admissions of the tolerance tests on the path (parallel / orthogonal / in). Symmetry is proved by running both argument orders against the same postcondition.",
    technique='contract-based deductive verification of distance (attained, minimal by universal witnesses; z3 nlsat / z3 4.8 / cvc5) + labelled bounded distance catalogue with exact squared distances',
    design_ref="DESIGN.md section 9 (C10)",
)
EXPLANATION = "all documented pairs x both orders x method forms; flat types have one shape, so no bound"


def _D():
    import importlib
    return importlib.import_module("Geometry3D.calc.distance").distance


def _call_forms(vc, a, b):
    """function in both orders + method forms; returns list of (label, Outcome)"""
    g = C.G()
    d = _D()
    forms = [("distance(a, b)", vc.call(d, a, b)), ("distance(b, a)", vc.call(d, b, a))]
    for x, y, lab in ((a, b, "a.distance(b)"), (b, a, "b.distance(a)")):
        if isinstance(x, (g.Line, g.Plane)) or (isinstance(x, g.Point) and isinstance(y, g.Point)):
            forms.append((lab, vc.call(x.distance, y)))
    return forms


def _common(vc, forms, d2_spec, zero_iff, label):
    """d >= 0, d^2 = d2_spec, d = 0 <=> zero_iff, for every call form"""
    for lab, out in forms:
        vc.ensure("%s: %s does not raise" % (label, lab), out.returned)
        if not out.returned:
            vc.note("%s raised %r" % (lab, out.value))
            continue
        d = out.value
        vc.ensure("%s: %s >= 0" % (label, lab), SP.gez(d))
        vc.ensure("%s: %s squared is the squared distance of the foot points" % (label, lab), SP.eq(d * d, d2_spec))
        vc.ensure("%s: %s = 0 <=> the operands have a common point" % (label, lab), Iff(SP.eqz(d), zero_iff))


def h_point_point(vc):
    a, b = C.P(vc, "a"), C.P(vc, "b")
    av, bv = SP.vec(a), SP.vec(b)
    before = (vc.snapshot(a), vc.snapshot(b))
    forms = _call_forms(vc, a, b)
    _common(vc, forms, SP.norm2(SP.sub(av, bv)), SP.veq(av, bv), "Point-Point")
    vc.ensure("frame: operands unchanged", (vc.snapshot(a), vc.snapshot(b)) == before)


def h_point_line(vc):
    a = C.P(vc, "a")
    l = C.line(vc, "l")
    av, sv, dv = SP.vec(a), SP.vec(l.sv), SP.vec(l.dv)
    t = vc.real("t")
    y = SP.add(sv, SP.scale(t, dv))  # arbitrary point of the line
    before = (vc.snapshot(a), vc.snapshot(l))
    forms = _call_forms(vc, a, l)
    vc.ensure("Point-Line: all call forms return", all(o.returned for _, o in forms))
    if not all(o.returned for _, o in forms):
        for lab, o in forms:
            if not o.returned:
                vc.note("%s raised %r" % (lab, o.value))
        return
    for lab, out in forms:
        d = out.value
        vc.ensure("Point-Line: %s >= 0" % lab, SP.gez(d))
        vc.ensure("Point-Line: no point of the line is closer than %s" % lab, SP.gez(SP.norm2(SP.sub(av, y)) - d * d))
        # attained: the foot point a + ((sv-a).dv ... ) ; in spec form: d^2 |dv|^2 = |(a - sv) x dv|^2
        cr = SP.cross(SP.sub(av, sv), dv)
        vc.ensure("Point-Line: %s squared * |dv|^2 = |(a - sv) x dv|^2 (attained at the foot point)" % lab, SP.eq(d * d * SP.norm2(dv), SP.norm2(cr)))
        vc.ensure("Point-Line: %s = 0 <=> the point lies on the line" % lab, Iff(SP.eqz(d), SP.on_line(av, sv, dv)))
    vc.ensure("frame: operands unchanged", (vc.snapshot(a), vc.snapshot(l)) == before)


def h_point_plane(vc):
    a = C.P(vc, "a")
    p = C.plane(vc, "p")
    av, pp, n = SP.vec(a), SP.vec(p.p), SP.vec(p.n)
    x = C.witness(vc, "x")
    before = (vc.snapshot(a), vc.snapshot(p))
    forms = _call_forms(vc, a, p)
    h = SP.dot(SP.sub(av, pp), n)  # signed height (|n| = 1)
    for lab, out in forms:
        vc.ensure("Point-Plane: %s does not raise" % lab, out.returned)
        if not out.returned:
            vc.note("%s raised %r" % (lab, out.value))
            continue
        d = out.value
        vc.ensure("Point-Plane: %s >= 0" % lab, SP.gez(d))
        vc.ensure("Point-Plane: %s squared = (n.(a - p))^2 (attained at the foot point a - h n)" % lab, SP.eq(d * d, h * h))
        if vc.symbolic:
            y = SP.sub(av, x)
            vc.hint("Lagrange / Cauchy-Schwarz instance", SP.norm2(y) * SP.norm2(n) - SP.dot(y, n) * SP.dot(y, n) == SP.norm2(SP.cross(y, n)))
        vc.ensure("Point-Plane: no point of the plane is closer than %s" % lab, Implies(SP.on_plane(x, pp, n), SP.gez(SP.norm2(SP.sub(av, x)) - d * d)))
        vc.ensure("Point-Plane: %s = 0 <=> the point lies in the plane" % lab, Iff(SP.eqz(d), SP.on_plane(av, pp, n)))
    vc.ensure("frame: operands unchanged", (vc.snapshot(a), vc.snapshot(p)) == before)


def h_line_plane(vc):
    l = C.line(vc, "l")
    p = C.plane(vc, "p")
    sv, dv, pp, n = SP.vec(l.sv), SP.vec(l.dv), SP.vec(p.p), SP.vec(p.n)
    t = vc.real("t")
    y = SP.add(sv, SP.scale(t, dv))
    x = C.witness(vc, "x")
    before = (vc.snapshot(l), vc.snapshot(p))
    forms = _call_forms(vc, l, p)
    par = SP.eqz(SP.dot(dv, n))
    h = SP.dot(SP.sub(sv, pp), n)
    for lab, out in forms:
        vc.ensure("Line-Plane: %s does not raise" % lab, out.returned)
        if not out.returned:
            vc.note("%s raised %r" % (lab, out.value))
            continue
        d = out.value
        vc.ensure("Line-Plane: %s >= 0" % lab, SP.gez(d))
        vc.ensure("Line-Plane: crossing => %s = 0" % lab, Implies(Not(par), SP.eqz(d)))
        vc.ensure("Line-Plane: parallel => %s squared = (n.(sv - p))^2" % lab, Implies(par, SP.eq(d * d, h * h)))
        if vc.symbolic:
            z = SP.sub(y, x)
            vc.hint("Lagrange / Cauchy-Schwarz instance", SP.norm2(z) * SP.norm2(n) - SP.dot(z, n) * SP.dot(z, n) == SP.norm2(SP.cross(z, n)))
            vc.hint("height of a line point", SP.dot(SP.sub(y, pp), n) == h + t * SP.dot(dv, n))
        vc.ensure("Line-Plane: no pair of points is closer than %s" % lab, Implies(SP.on_plane(x, pp, n), SP.gez(SP.norm2(SP.sub(y, x)) - d * d)))
        vc.ensure("Line-Plane: %s = 0 <=> line and plane have a common point" % lab, Iff(SP.eqz(d), Or(Not(par), SP.on_plane(sv, pp, n))))
    vc.ensure("frame: operands unchanged", (vc.snapshot(l), vc.snapshot(p)) == before)


def h_line_line(vc):
    l1, l2 = C.line(vc, "l1"), C.line(vc, "l2")
    p, u, q, w = SP.vec(l1.sv), SP.vec(l1.dv), SP.vec(l2.sv), SP.vec(l2.dv)
    s, t = vc.real("s"), vc.real("t")
    y, z = SP.add(p, SP.scale(s, u)), SP.add(q, SP.scale(t, w))
    c = SP.cross(u, w)
    cc = SP.norm2(c)
    r = SP.sub(q, p)
    before = (vc.snapshot(l1), vc.snapshot(l2))
    forms = _call_forms(vc, l1, l2)
    for lab, out in forms:
        vc.ensure("Line-Line: %s does not raise (parallel, intersecting and skew lines)" % lab, out.returned)
        if not out.returned:
            vc.note("%s raised %r" % (lab, out.value))
            continue
        d = out.value
        vc.ensure("Line-Line: %s >= 0" % lab, SP.gez(d))
        # skew / intersecting: d^2 |u x w|^2 = ((q-p).(u x w))^2 ; parallel: d^2 |u|^2 = |(q-p) x u|^2
        vc.ensure("Line-Line: not parallel => %s squared * |u x w|^2 = ((q - p).(u x w))^2" % lab, Implies(Not(SP.vzero(c)), SP.eq(d * d * cc, SP.dot(r, c) * SP.dot(r, c))))
        vc.ensure("Line-Line: parallel => %s squared * |u|^2 = |(q - p) x u|^2" % lab, Implies(SP.vzero(c), SP.eq(d * d * SP.norm2(u), SP.norm2(SP.cross(r, u)))))
        if vc.symbolic:
            yz = SP.sub(z, y)
            vc.hint("(z - y).(u x w) = (q - p).(u x w)", SP.dot(yz, c) == SP.dot(r, c))
            vc.hint("Lagrange / Cauchy-Schwarz instance", SP.norm2(yz) * cc - SP.dot(yz, c) * SP.dot(yz, c) == SP.norm2(SP.cross(yz, c)))
        vc.ensure("Line-Line: not parallel => no pair of points is closer than %s" % lab,
                  Implies(Not(SP.vzero(c)), SP.gez(SP.norm2(SP.sub(z, y)) * cc - d * d * cc)))
    vc.ensure("frame: operands unchanged", (vc.snapshot(l1), vc.snapshot(l2)) == before)


def groups(tier):
    from props.C01 import coord_stubs
    cs = coord_stubs() + [(C.T_NORMALIZED, C.x_normalized), (C.T_LENGTH, C.x_length), (C.T_ILP, C.x_inter_line_plane)]
    mk = lambda name, h, extra=(): Group(name, h, [DIST, "Geometry3D.geometry.body:GeoBody.distance"] + list(extra), stubs=cs, world="COORD", timeout_s=900, prove_ms=60000)
    return [mk("distance[Point,Point]", h_point_point, ["Geometry3D.geometry.point:Point.distance"]), mk("distance[Point,Line]", h_point_line),
            mk("distance[Point,Plane]", h_point_plane), mk("distance[Line,Plane]", h_line_plane), mk("distance[Line,Line]", h_line_line)]


def bounded(tier, seed):
    from g3dvc import bounded as B
    return [("distance catalogue", B.distances, (seed, 60 if tier == "quick" else 1500), 3000)]


def replay_case(case):
    from g3dvc import bounded as B
    return B.replay_distance(case)
