"""Contracts of the 28 intersection handlers (Geometry3D.calc.intersection).

Every handler has the same top-level contract, taken from the property
statements C01-C03:

    requires  operands valid (type invariants), every tolerance test admitted
    ensures   result is None or an instance of one of RESULT_KINDS[handler]
              and  forall x.  x in result  <=>  x in a  and  x in b
    raises    never

`PARAMS` gives the operand types in the handler's parameter order (read from the
handler's own docstring / body), `RESULT_KINDS` the result types the contract
allows (they coincide with the documented table, which the C04 check parses
from docs/source/example_operation.rst on every run).  `CASE_FACTS` are the
stronger per-result-type facts that the leaf proofs establish and that the
composition proofs in the SET world rely on.
"""
from g3dvc import setworld as SW
from g3dvc.sym import And, Or, Not, Implies, Iff

MOD = "Geometry3D.calc.intersection"

PARAMS = {
    "inter_point_point": ("Point", "Point"),
    "inter_point_line": ("Point", "Line"),
    "inter_point_plane": ("Point", "Plane"),
    "inter_point_segment": ("Point", "Segment"),
    "inter_point_convexpolygon": ("Point", "ConvexPolygon"),
    "inter_point_convexpolyhedron": ("Point", "ConvexPolyhedron"),
    "inter_point_halfline": ("Point", "HalfLine"),
    "inter_line_line": ("Line", "Line"),
    "inter_line_plane": ("Line", "Plane"),
    "inter_line_segment": ("Line", "Segment"),
    "inter_line_convexpolygon": ("Line", "ConvexPolygon"),
    "inter_line_convexpolyhedron": ("Line", "ConvexPolyhedron"),
    "inter_line_halfline": ("Line", "HalfLine"),
    "inter_plane_plane": ("Plane", "Plane"),
    "inter_plane_segment": ("Plane", "Segment"),
    "inter_plane_convexpolygon": ("Plane", "ConvexPolygon"),
    "inter_plane_convexpolyhedron": ("Plane", "ConvexPolyhedron"),
    "inter_plane_halfline": ("Plane", "HalfLine"),
    "inter_segment_segment": ("Segment", "Segment"),
    "inter_segment_convexpolygon": ("Segment", "ConvexPolygon"),
    "inter_segment_convexpolyhedron": ("Segment", "ConvexPolyhedron"),
    "inter_segment_halfline": ("Segment", "HalfLine"),
    "inter_convexpolygon_convexpolygon": ("ConvexPolygon", "ConvexPolygon"),
    "inter_convexpolygon_convexPolyhedron": ("ConvexPolyhedron", "ConvexPolygon"),  # parameters are (cph, cpg)
    "inter_convexpolygon_halfline": ("ConvexPolygon", "HalfLine"),
    "inter_convexpolyhedron_convexpolyhedron": ("ConvexPolyhedron", "ConvexPolyhedron"),
    "inter_convexpolyhedron_halfline": ("ConvexPolyhedron", "HalfLine"),
    "inter_halfline_halfline": ("HalfLine", "HalfLine"),
}

P, S, G, H = "Point", "Segment", "ConvexPolygon", "ConvexPolyhedron"
RESULT_KINDS = {
    "inter_point_point": (None, P),
    "inter_point_line": (None, P),
    "inter_point_plane": (None, P),
    "inter_point_segment": (None, P),
    "inter_point_convexpolygon": (None, P),
    "inter_point_convexpolyhedron": (None, P),
    "inter_point_halfline": (None, P),
    "inter_line_line": (None, P, "Line"),
    "inter_line_plane": (None, P, "Line"),
    "inter_line_segment": (None, P, S),
    "inter_line_convexpolygon": (None, P, S),
    "inter_line_convexpolyhedron": (None, P, S),
    "inter_line_halfline": (None, P, "HalfLine"),
    "inter_plane_plane": (None, "Line", "Plane"),
    "inter_plane_segment": (None, P, S),
    "inter_plane_convexpolygon": (None, P, S, G),
    "inter_plane_convexpolyhedron": (None, P, S, G),
    "inter_plane_halfline": (None, P, "HalfLine"),
    "inter_segment_segment": (None, P, S),
    "inter_segment_convexpolygon": (None, P, S),
    "inter_segment_convexpolyhedron": (None, P, S),
    "inter_segment_halfline": (None, P, S),
    "inter_convexpolygon_convexpolygon": (None, P, S, G),
    "inter_convexpolygon_convexPolyhedron": (None, P, S, G),
    "inter_convexpolygon_halfline": (None, P, S),
    "inter_convexpolyhedron_convexpolyhedron": (None, P, S, G, H),
    "inter_convexpolyhedron_halfline": (None, P, S),
    "inter_halfline_halfline": (None, P, S, "HalfLine"),
}

# where each handler's extensional contract is established
PROVED_IN = {
    "inter_point_point": "SET", "inter_point_line": "SET", "inter_point_plane": "SET", "inter_point_segment": "SET",
    "inter_point_convexpolygon": "SET", "inter_point_convexpolyhedron": "SET", "inter_point_halfline": "SET",
    "inter_line_line": "COORD", "inter_line_plane": "COORD", "inter_plane_plane": "COORD",
    "inter_line_segment": "SET", "inter_line_halfline": "SET", "inter_plane_segment": "SET", "inter_plane_halfline": "SET",
    "inter_segment_segment": "SET(crossing)+COORD(collinear)", "inter_segment_halfline": "SET(crossing)+COORD(collinear)",
    "inter_halfline_halfline": "SET(crossing)+COORD(collinear)",
    "inter_line_convexpolygon": "SET(line not in the polygon's plane)+bounded(coplanar)",
    "inter_plane_convexpolygon": "SET", "inter_segment_convexpolygon": "SET", "inter_convexpolygon_halfline": "SET",
    "inter_convexpolygon_convexpolygon": "SET(crossing planes)+bounded(coplanar)",
    "inter_convexpolygon_convexPolyhedron": "SET",
    "inter_line_convexpolyhedron": "bounded", "inter_plane_convexpolyhedron": "bounded", "inter_segment_convexpolyhedron": "bounded",
    "inter_convexpolyhedron_halfline": "bounded", "inter_convexpolyhedron_convexpolyhedron": "bounded",
}


def handler_for(ta, tb):
    """(handler name, swapped?) whose contract is 'a cap b' for operand types (ta, tb)"""
    for name, (pa, pb) in PARAMS.items():
        if (pa, pb) == (ta, tb):
            return name, False
    for name, (pa, pb) in PARAMS.items():
        if (pb, pa) == (ta, tb):
            return name, True
    return None, False


def case_facts(name):
    """per-result-type facts of the leaf contracts (proved in props/C01 COORD groups)"""
    if name == "inter_line_line":
        def f(w, a, b, k, r):
            if k == "Line":  # returned only when the two lines are the same set
                w.forall(lambda x: And(w.member(x, r) == w.member(x, a), w.member(x, a) == w.member(x, b)))
        return f
    if name == "inter_line_plane":
        def f(w, a, b, k, r):
            if k == "Line":  # the line lies in the plane and is returned itself
                w.forall(lambda x: And(w.member(x, r) == w.member(x, a), Implies(w.member(x, a), w.member(x, b))))
        return f
    if name == "inter_plane_plane":
        def f(w, a, b, k, r):
            if k == "Plane":
                w.forall(lambda x: And(w.member(x, r) == w.member(x, a), w.member(x, a) == w.member(x, b)))
        return f
    return None


def handler_stubs(exclude=(), restrict=None):
    """stubs (target, fn) for every handler except those in `exclude`.
    restrict: {handler: kinds that the precondition of the harness rules out}"""
    out = []
    for name in PARAMS:
        if name in exclude:
            continue
        out.append(("%s:%s" % (MOD, name), SW.make_handler_stub(name, RESULT_KINDS[name], case_facts(name), (restrict or {}).get(name))))
    return out


def _opaque_repr(self):
    return "<opaque %s>" % type(self).__name__


def membership_stubs():
    from g3dvc.engine import load_repo
    g = load_repo()
    out = [("Geometry3D.geometry.point:Point.__eq__", SW.stub_point_eq), ("Geometry3D.geometry.point:Point.__hash__", SW.stub_point_hash)]
    for kind, mod in (("Line", "line"), ("Plane", "plane"), ("Segment", "segment"), ("HalfLine", "halfline"), ("ConvexPolygon", "polygon"), ("ConvexPolyhedron", "polyhedron")):
        cls = getattr(g, kind)
        out.append(("Geometry3D.geometry.%s:%s.__contains__" % (mod, kind), SW.make_contains_stub(kind, cls.__dict__["__contains__"])))
        # the dispatcher formats its operands into a debug log message; opaque operands have no coordinates to print
        out.append(("Geometry3D.geometry.%s:%s.__repr__" % (mod, kind), _opaque_repr))
    out.append(("Geometry3D.geometry.point:Point.__repr__", _opaque_repr))
    out.append(("Geometry3D.geometry.line:Line.__eq__", SW.stub_line_eq))
    out.append(("Geometry3D.geometry.plane:Plane.__eq__", SW.stub_plane_eq))
    return out


# ---------------------------------------------------------------------------
# the dispatcher: intersection(a, b) for every ordered type pair
# ---------------------------------------------------------------------------

class _Sentinel(object):
    def __init__(self, name):
        self.name = name

    def __repr__(self):
        return "<result of %s>" % self.name


def recording_stubs(calls):
    out = []
    for name in PARAMS:
        def mk(name):
            def stub(x, y):
                from g3dvc import sym as S
                S.engine().hit(name)
                s = _Sentinel(name)
                calls.append((name, x, y, s))
                return s
            return stub
        out.append(("%s:%s" % (MOD, name), mk(name)))
    return out


def dispatch_harness(ta, tb, calls):
    """the real dispatcher on opaque operands of types (ta, tb): it must reach
    the handler whose contract is 'a cap b' for these types, with the operands
    in that handler's parameter order, and pass its result through; the method
    form must do the same"""

    def h(vc):
        import importlib
        from g3dvc import setworld as SW
        I = importlib.import_module(MOD)
        if not vc.symbolic:
            return _dispatch_concrete(vc, I, ta, tb)
        w = SW.SetWorld(vc)
        a = w.obj(ta, "a")
        b = w.obj(tb, "b")
        exp, swapped = handler_for(ta, tb)
        forms = [("intersection(a, b)", lambda: I.intersection(a, b))]
        if ta != "Point":
            forms.append(("a.intersection(b)", lambda: a.intersection(b)))
        for label, f in forms:
            del calls[:]
            out = vc.call(f)
            vc.ensure("%s [%s, %s]: defined (no NotImplementedError / other exception)" % (label, ta, tb), out.returned)
            if not out.returned:
                vc.note("%s raised %r" % (label, out.value))
                continue
            ok = len(calls) == 1 and calls[0][0] == exp
            vc.ensure("%s [%s, %s]: reaches exactly the handler %s" % (label, ta, tb, exp), ok)
            if not ok:
                vc.note("handlers reached: %s" % [c[0] for c in calls])
                continue
            name, x, y, s = calls[0]
            pa, pb = PARAMS[name]
            order_ok = (w.kind_of(x), w.kind_of(y)) == (pa, pb) and ((x is a and y is b) or (x is b and y is a))
            vc.ensure("%s [%s, %s]: operands passed in the handler's parameter order (%s, %s)" % (label, ta, tb, pa, pb), order_ok)
            vc.ensure("%s [%s, %s]: the handler's result is returned unchanged" % (label, ta, tb), out.value is s)
        # None in either position
        for label, f in (("intersection(a, None)", lambda: I.intersection(a, None)), ("intersection(None, b)", lambda: I.intersection(None, b))):
            del calls[:]
            out = vc.call(f)
            vc.ensure("%s [%s, %s] is None" % (label, ta, tb), out.returned and out.value is None and not calls)

    return h


def concrete_sample(kind, variant=0):
    """a fixed concrete operand of each type (native replay of dispatcher obligations)"""
    from g3dvc.engine import load_repo
    g = load_repo()
    P_, V_ = g.Point, g.Vector
    if kind == "Point":
        return P_(1, 2, 2) if variant == 0 else P_(0, 0, 0)
    if kind == "Line":
        return g.Line(P_(0, 0, 0), V_(1, 2, 2))
    if kind == "Plane":
        return g.Plane(P_(0, 0, 0), V_(2, 1, -2))
    if kind == "Segment":
        return g.Segment(P_(0, 0, 0), P_(2, 4, 4))
    if kind == "HalfLine":
        return g.HalfLine(P_(0, 0, 0), V_(1, 2, 2))
    if kind == "ConvexPolygon":
        return g.ConvexPolygon((P_(0, 0, 0), P_(4, 0, 0), P_(4, 4, 0), P_(0, 4, 0)))
    if kind == "ConvexPolyhedron":
        return g.Parallelepiped(P_(-1, -1, -1), V_(4, 0, 0), V_(0, 4, 0), V_(0, 0, 4))
    raise KeyError(kind)


def _dispatch_concrete(vc, I, ta, tb):
    from g3dvc.engine import load_repo
    g = load_repo()
    a, b = concrete_sample(ta), concrete_sample(tb, 1)
    exp, _ = handler_for(ta, tb)
    kinds = RESULT_KINDS[exp]
    forms = [("intersection(a, b)", lambda: I.intersection(a, b))]
    if ta != "Point":
        forms.append(("a.intersection(b)", lambda: a.intersection(b)))
    for label, f in forms:
        out = vc.call(f)
        vc.ensure("%s [%s, %s]: defined (no NotImplementedError / other exception)" % (label, ta, tb), out.returned)
        if not out.returned:
            vc.note("%s raised %r" % (label, out.value))
            continue
        k = None if out.value is None else type(out.value).__name__
        vc.ensure("%s [%s, %s]: result type %s among %s" % (label, ta, tb, k, kinds), k in kinds)
    for label, f in (("intersection(a, None)", lambda: I.intersection(a, None)), ("intersection(None, b)", lambda: I.intersection(None, b))):
        out = vc.call(f)
        vc.ensure("%s [%s, %s] is None" % (label, ta, tb), out.returned and out.value is None)
