"""C17 - Plane and Line forms round-trip to the same object."""
from g3dvc.runner import Group
from g3dvc.sym import Sym, SymBool, F, And, Or, Not, Implies, Iff
from g3dvc import spec as SP
from contracts import common as C

PROPERTY = "C17"
LEVEL = "proof"
ASSUMES = ["A1", "A2", "A5", "A6"]
PL = "Geometry3D.geometry.plane:Plane."
LN = "Geometry3D.geometry.line:Line."
MANIFEST = dict(
    text=("Deductive proof over all real coefficients / coordinates, against the contract of solve() proved in C16: Plane(a, b, c, d) denotes exactly {x | a x + b y + c z = d} for every (a, b, c) != 0 (every zero pattern, since a, b, c are symbolic); "
          "Plane(*P.general_form()), Plane(Point(p), n) with (p, n) = P.point_normal() and Plane(Point(u), v, w) with (u, v, w) = P.parametric() denote the same plane as P, where v and w are orthogonal to the normal, non-zero and linearly independent "
          "and parametric() never raises (its assert included); a plane through three non-collinear points contains them; -P has the opposite normal and the same points; Line(p, q), Line(p, q - p) and Line(position vector, direction) denote the same line and "
          "parametric() reproduces it."),
    note="A1, A5 (Vector.parallel / orthogonal / == by their exact contracts). solve() enters by its contract (truthy <=> consistent, unknowns - rank free values, result solves the system and contains the free values), not its body; the last clause is not part of C16 and is proved here on the real solver for the 1x3 and 2x3 systems these functions pose (callee-contract groups: if it is ever refuted the dependent proofs are void and their clauses are searched natively).",
    technique='contract-based deductive verification of the Plane / Line constructor and read-back forms against the contract of solve(), with callee-contract groups for the clause C16 does not state (z3)',
    design_ref="DESIGN.md section 9 (C17)",
)
EXPLANATION = "all constructor forms and read-back forms, symbolic coefficients (hence every zero pattern of the normal / direction)"


def _plane_is(vc, label, Q, pp, n, orig=None):
    """Q (a Plane object) denotes the plane through pp with normal direction n"""
    g = C.G()
    ok = isinstance(Q, g.Plane)
    vc.ensure("%s: a Plane is returned" % label, ok)
    if not ok:
        return
    qp, qn = SP.vec(Q.p), SP.vec(Q.n)
    vc.ensure("%s: stored normal has unit length" % label, SP.eq(SP.norm2(qn), 1))
    vc.ensure("%s: normal parallel to the given one" % label, SP.collinear(qn, n))
    vc.ensure("%s: its point lies in the given plane" % label, SP.eqz(SP.dot(SP.sub(qp, pp), n)))
    if orig is not None:
        out = vc.call(lambda: (Q == orig) and (orig == Q))
        vc.ensure("%s == P (the library's own equality, both orders)" % label, out.returned and (F(out.value) if isinstance(out.value, SymBool) else bool(out.value)))


def _witness_hook(vc):
    """for a one-equation system [a b c | d] with (a, b, c) != 0 the point d (a, b, c) / (a^2 + b^2 + c^2) is a solution: instance of 'a solution exists => truthy'"""
    if not vc.symbolic:
        return

    def hook(st):
        if len(st.m0) != 1:
            return
        row = st.m0[0]
        co, rhs = row[:-1], row[-1]
        nn = sum(c * c for c in co)
        if vc.branch(F(nn == 0)) if not isinstance(F(nn == 0), bool) else F(nn == 0):
            return
        w = [c * rhs / nn for c in co]
        vc.hint("the witness solves the equation", SP.eq(sum(c * x for c, x in zip(co, w)) * nn, rhs * nn))
        vc.assume(st.consistent_at(w), "solve contract instantiated at the witness d (a,b,c)/|(a,b,c)|^2")

    vc.on_call["solve"] = hook


def h_general_form(vc):
    g = C.G()
    a, b, c, d = vc.real("a"), vc.real("b"), vc.real("c"), vc.real("d")
    n = (a, b, c)
    vc.assume(SP.vnonzero(n), "(a, b, c) != 0")
    _witness_hook(vc)
    out = vc.call(g.Plane, a, b, c, d)
    vc.ensure("Plane(a, b, c, d) does not raise", out.returned)
    if not out.returned:
        vc.note(repr(out.value))
        return
    Q = out.value
    qp, qn = SP.vec(Q.p), SP.vec(Q.n)
    x = C.witness(vc)
    vc.ensure("Plane(a, b, c, d): unit normal", SP.eq(SP.norm2(qn), 1))
    vc.ensure("Plane(a, b, c, d): normal is a positive multiple of (a, b, c)", And(SP.collinear(qn, n), SP.gtz(SP.dot(qn, n))))
    vc.ensure("Plane(a, b, c, d): its point satisfies the equation", SP.eq(SP.dot(n, qp), d))
    if vc.symbolic and vc.log.get("normalized"):
        k = vc.log["normalized"][0][0]
        vc.hint("n.(x - p) expanded", SP.dot(SP.sub(x, qp), qn) == k * (SP.dot(n, x) - SP.dot(n, qp)))
    vc.ensure("Plane(a, b, c, d): x in plane <=> a x + b y + c z = d", Iff(SP.on_plane(x, qp, qn), SP.eq(SP.dot(n, x), d)))


def h_roundtrips(vc):
    g = C.G()
    P = C.plane(vc, "P")
    pp, n = SP.vec(P.p), SP.vec(P.n)
    before = vc.snapshot(P)
    _witness_hook(vc)
    out = vc.call(P.general_form)
    vc.ensure("general_form() does not raise", out.returned)
    if out.returned:
        gf = out.value
        vc.ensure("general_form() = (n, n.p)", And(SP.veq(gf[:3], n), SP.eq(gf[3], SP.dot(n, pp))))
        o2 = vc.call(g.Plane, *gf)
        vc.ensure("Plane(*P.general_form()) does not raise", o2.returned)
        if o2.returned:
            _plane_is(vc, "Plane(*P.general_form())", o2.value, pp, n, P)
        else:
            vc.note(repr(o2.value))
    out = vc.call(P.point_normal)
    vc.ensure("point_normal() does not raise", out.returned)
    if out.returned:
        p0, n0 = out.value
        vc.ensure("point_normal() = (position vector of p, n)", And(SP.veq(SP.vec(p0), pp), SP.veq(SP.vec(n0), n)))
        o2 = vc.call(lambda: g.Plane(g.Point(p0), n0))
        vc.ensure("Plane(Point(p), n) does not raise", o2.returned)
        if o2.returned:
            _plane_is(vc, "Plane(Point(p), n)", o2.value, pp, n, P)
    out = vc.call(lambda: -P)
    vc.ensure("-P does not raise", out.returned)
    if out.returned:
        Q = out.value
        vc.ensure("-P has the opposite normal and the same points", And(SP.veq(SP.vec(Q.n), SP.neg(n)), SP.eqz(SP.dot(SP.sub(SP.vec(Q.p), pp), n))) if isinstance(Q, g.Plane) else False)
    vc.ensure("frame: P unchanged", vc.snapshot(P) == before)


def h_parametric(vc):
    g = C.G()
    P = C.plane(vc, "P")
    pp, n = SP.vec(P.p), SP.vec(P.n)
    before = vc.snapshot(P)
    out = vc.call(P.parametric)
    vc.ensure("parametric() does not raise (assert included)", out.returned)
    if not out.returned:
        vc.note(repr(out.value))
        return
    u, v, w = out.value
    uv, vv, wv = SP.vec(u), SP.vec(v), SP.vec(w)
    cr = SP.cross(vv, wv)
    vc.ensure("parametric(): u is the position vector of a point of P", SP.eqz(SP.dot(SP.sub(uv, pp), n)))
    vc.ensure("parametric(): v parallel to P", SP.eqz(SP.dot(vv, n)))
    vc.ensure("parametric(): w parallel to P", SP.eqz(SP.dot(wv, n)))
    if vc.symbolic:
        vc.hint("Lagrange", SP.norm2(vv) * SP.norm2(wv) - SP.dot(vv, wv) * SP.dot(vv, wv) == cr[0] * cr[0] + cr[1] * cr[1] + cr[2] * cr[2])
        for i in range(3):
            vc.hint("BAC-CAB %d" % i, SP.cross(cr, n)[i] == wv[i] * SP.dot(vv, n) - vv[i] * SP.dot(wv, n))
    vc.ensure("parametric(): v and w linearly independent", Not(SP.vzero(cr)))
    o2 = vc.call(lambda: g.Plane(g.Point(u), v, w))
    vc.ensure("Plane(Point(u), v, w) does not raise", o2.returned)
    if o2.returned:
        _plane_is(vc, "Plane(Point(u), v, w)", o2.value, pp, n, P)
    else:
        vc.note(repr(o2.value))
    vc.ensure("frame: P unchanged", vc.snapshot(P) == before)


def h_three_points(vc):
    g = C.G()
    a, b, c = C.P(vc, "a"), C.P(vc, "b"), C.P(vc, "c")
    av, bv, cv = SP.vec(a), SP.vec(b), SP.vec(c)
    nn = SP.cross(SP.sub(bv, av), SP.sub(cv, av))
    vc.assume(SP.vnonzero(nn), "the three points are not collinear")
    before = (vc.snapshot(a), vc.snapshot(b), vc.snapshot(c))
    out = vc.call(g.Plane, a, b, c)
    vc.ensure("Plane(a, b, c) does not raise", out.returned)
    if out.returned:
        Q = out.value
        qp, qn = SP.vec(Q.p), SP.vec(Q.n)
        vc.ensure("Plane(a, b, c): unit normal", SP.eq(SP.norm2(qn), 1))
        for nm, x in (("a", av), ("b", bv), ("c", cv)):
            vc.ensure("Plane(a, b, c) contains %s" % nm, SP.on_plane(x, qp, qn))
    else:
        vc.note(repr(out.value))
    vc.ensure("frame: points unchanged", (vc.snapshot(a), vc.snapshot(b), vc.snapshot(c)) == before)


def h_line_forms(vc):
    g = C.G()
    p, q = C.P(vc, "p"), C.P(vc, "q")
    pv, qv = SP.vec(p), SP.vec(q)
    d = SP.sub(qv, pv)
    vc.assume(SP.vnonzero(d), "p != q")
    before = (vc.snapshot(p), vc.snapshot(q))
    forms = [("Line(p, q)", lambda: g.Line(p, q)), ("Line(p, q - p)", lambda: g.Line(p, g.Vector(*d))), ("Line(position vector, direction)", lambda: g.Line(p.pv(), g.Vector(*d)))]
    for label, f in forms:
        out = vc.call(f)
        vc.ensure("%s does not raise" % label, out.returned)
        if not out.returned:
            vc.note(repr(out.value))
            continue
        L = out.value
        vc.ensure("%s denotes the line through p and q" % label, SP.same_line(SP.vec(L.sv), SP.vec(L.dv), pv, d))
        vc.ensure("%s: direction not zero" % label, SP.vnonzero(SP.vec(L.dv)))
        o2 = vc.call(L.parametric)
        vc.ensure("%s.parametric() reproduces it" % label, o2.returned and o2.value[0] is L.sv and o2.value[1] is L.dv)
        o3 = vc.call(lambda: g.Line(*L.parametric()))
        if o3.returned:
            vc.ensure("Line(*%s.parametric()) is the same line" % label, SP.same_line(SP.vec(o3.value.sv), SP.vec(o3.value.dv), pv, d))
        else:
            vc.fail("Line(*parametric()) raised")
    vc.ensure("frame: points unchanged", (vc.snapshot(p), vc.snapshot(q)) == before)
    for nm, mk, dd in (("x_axis", g.x_axis, (1, 0, 0)), ("y_axis", g.y_axis, (0, 1, 0)), ("z_axis", g.z_axis, (0, 0, 1))):
        L = mk()
        vc.ensure("%s() is the axis" % nm, And(SP.veq(SP.vec(L.sv), (0, 0, 0)), SP.collinear(SP.vec(L.dv), dd), SP.vnonzero(SP.vec(L.dv))))
    for nm, mk, dd in (("xy_plane", g.xy_plane, (0, 0, 1)), ("yz_plane", g.yz_plane, (1, 0, 0)), ("xz_plane", g.xz_plane, (0, 1, 0))):
        Q = mk()
        vc.ensure("%s() is the coordinate plane" % nm, And(SP.veq(SP.vec(Q.p), (0, 0, 0)), SP.veq(SP.vec(Q.n), dd)))


def groups(tier):
    C.remember_originals()
    stubs = [(C.T_SOLVE, C.x_solve), (C.T_NORMALIZED, C.x_normalized), (C.T_PAR, C.x_parallel), (C.T_ORT, C.x_orthogonal), (C.T_VEQ, C.x_vector_eq), (C.T_PEQ, C.x_point_eq),
             (C.T_PLANE_IN, C.x_plane_contains_point)]
    mk = lambda name, h, targets, hits=(): Group(name, h, targets, stubs=stubs, world="COORD", timeout_s=600, prove_ms=30000, expect_hits=list(hits))
    from props import C16
    users = ["Plane(a, b, c, d)", "general_form / point_normal / negation round-trips", "parametric round-trip"]
    callee = [Group("solve[%dx3] callee-contract clause assumed by the stub: free values appear" % R, C16.make_solve_harness(R, 3, None, True), [C.T_SOLVE, "Geometry3D.utils.solver:Solution.__call__"],
                    stubs=[(C.T_NULL, C.x_null)], expect_hits=["null"], world="COORD", timeout_s=600, callee_for=users) for R in (1, 2)]
    return callee + [
        mk("Plane(a, b, c, d)", h_general_form, [PL + "__init__", PL + "_init_gf"], ["solve", "Vector.normalized"]),
        mk("general_form / point_normal / negation round-trips", h_roundtrips, [PL + "general_form", PL + "point_normal", PL + "__neg__", PL + "_init_pn", PL + "_init_gf"], ["solve"]),
        mk("parametric round-trip", h_parametric, [PL + "parametric", PL + "__init__"], ["solve", "Vector.orthogonal"]),
        mk("Plane(three points)", h_three_points, [PL + "__init__"], ["Vector.normalized"]),
        mk("Line forms", h_line_forms, [LN + "__init__", LN + "parametric", LN + "x_axis", PL + "xy_plane"]),
    ]
