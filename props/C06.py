"""C06 - length, area and volume equal the exact measures."""
from fractions import Fraction

from g3dvc.runner import Group
from g3dvc.sym import Sym, SymBool, F, And, Or, Not, Implies, Iff
from g3dvc import spec as SP
from contracts import common as C

PROPERTY = "C06"
LEVEL = "other"
ASSUMES = ["A1", "A2", "A4", "A5", "A6"]
MANIFEST = dict(
    text=("Mixed. PROVED over all real coordinates: Segment.length / Point.distance (r >= 0, r^2 = |B - A|^2); get_triangle_area equals |AB x AC| / 2 for every triangle and never hits a domain error (Heron's radicand is "
          "identically |AB x AC|^2 / 4 >= 0); Pyramid.height = |(apex - p0).n|, Pyramid.volume = h A / 3 within 1e-9 relative (the code's 1/3 is a double), and volume(pyramid) agrees with pyramid.volume() (height through distance(Point, Plane) by its contract); "
          "volume() of other types raises. BOUNDED (labelled, not counted as proved): ConvexPolygon.length/area and ConvexPolyhedron.length/area/volume on catalogue polygons (3-8 vertices) and polyhedra (tetrahedra, boxes, prisms, pyramids, octahedra, hulls) "
          "in oblique poses under vertex permutations, face permutations, face rotations and face orientations, against exact rational cross-product / determinant formulas, relative tolerance 1e-9; volume(x) == x.volume()."),
    note=("The polygon fan-area and polyhedron pyramid-sum arguments are not proved in this revision (they need the polygon invariant in an in-plane frame; see DESIGN section 3.4); they rest on the bounded stand-in. A1, A5."),
    technique="contract-based deductive verification of the triangle / pyramid / segment measures (z3 with ghost scalars) + labelled bounded stand-in with exact rational reference for polygon and polyhedron sums",
    design_ref="DESIGN.md section 9 (C06)",
)
EXPLANATION = "proved: segment length, triangle area (Heron = cross product), pyramid height/volume, volume() dispatch; bounded: polygon and polyhedron sums under all orderings"
BOUNDED_ONLY = ["Geometry3D.geometry.polygon:ConvexPolygon.length", "Geometry3D.geometry.polygon:ConvexPolygon.area", "Geometry3D.geometry.polyhedron:ConvexPolyhedron.length",
                "Geometry3D.geometry.polyhedron:ConvexPolyhedron.area", "Geometry3D.geometry.polyhedron:ConvexPolyhedron.volume"]


def h_segment_length(vc):
    g = C.G()
    s = C.segment(vc, "s")
    a, b = SP.vec(s.start_point), SP.vec(s.end_point)
    before = vc.snapshot(s)
    for lab, f in (("Segment.length()", s.length), ("Point.distance(Point)", lambda: s.start_point.distance(s.end_point))):
        out = vc.call(f)
        vc.ensure("%s does not raise" % lab, out.returned)
        if out.returned:
            r = out.value
            vc.ensure("%s >= 0" % lab, SP.gez(r))
            vc.ensure("%s squared = |B - A|^2" % lab, SP.eq(r * r, SP.norm2(SP.sub(b, a))))
    vc.ensure("frame: segment unchanged", vc.snapshot(s) == before)


def h_triangle_area(vc):
    import importlib
    PG = importlib.import_module("Geometry3D.geometry.polygon")
    pa, pb, pc = C.P(vc, "pa"), C.P(vc, "pb"), C.P(vc, "pc")
    A, B, Cc = SP.vec(pa), SP.vec(pb), SP.vec(pc)
    A2, B2, C2 = SP.norm2(SP.sub(A, B)), SP.norm2(SP.sub(B, Cc)), SP.norm2(SP.sub(Cc, A))  # squared side lengths a^2, b^2, c^2
    cr = SP.cross(SP.sub(B, A), SP.sub(Cc, A))
    X = SP.norm2(cr)
    if vc.symbolic:
        # 2a^2b^2 + 2b^2c^2 + 2c^2a^2 - a^4 - b^4 - c^4 = 4 |AB x AC|^2   (polarisation + Lagrange; a ring identity in the coordinates)
        vc.hint("Heron radicand = |AB x AC|^2 / 4", 2 * A2 * B2 + 2 * B2 * C2 + 2 * C2 * A2 - A2 * A2 - B2 * B2 - C2 * C2 == 4 * X)
        vc.hint("|AB x AC|^2 >= 0", X >= 0)
        vc.ghost(A2, B2, C2, X)
    before = (vc.snapshot(pa), vc.snapshot(pb), vc.snapshot(pc))
    out = vc.call(PG.get_triangle_area, pa, pb, pc)
    vc.ensure("get_triangle_area does not raise (no domain error)", out.returned)
    if out.returned:
        r = out.value
        vc.ensure("area >= 0", SP.gez(r))
        vc.ensure("area^2 = |AB x AC|^2 / 4", SP.eq(4 * r * r, X))
    else:
        vc.note(repr(out.value))
    vc.ensure("frame: points unchanged", (vc.snapshot(pa), vc.snapshot(pb), vc.snapshot(pc)) == before)


class _Poly(object):
    """stand-in for the base polygon of a pyramid: points[0], plane and area() by contract"""


def h_pyramid(vc):
    import importlib
    g = C.G()
    VOL = importlib.import_module("Geometry3D.calc.volume")
    base = g.ConvexPolygon.__new__(g.ConvexPolygon)
    pl = C.plane(vc, "plane")
    p0 = C.P(vc, "p0")
    vc.assume(SP.on_plane(SP.vec(p0), SP.vec(pl.p), SP.vec(pl.n)), "invariant: the polygon's vertices lie in its plane")
    base.points = (p0,)
    base.plane = pl
    area = vc.real("area")
    vc.assume(SP.gez(area), "contract of ConvexPolygon.area: >= 0")
    apex = C.P(vc, "apex")
    h_exact = SP.dot(SP.sub(SP.vec(apex), SP.vec(p0)), SP.vec(pl.n))
    vc.admit(Or(h_exact >= C.ADM * C.EPS0, h_exact <= -C.ADM * C.EPS0) if vc.symbolic else abs(h_exact) >= float(C.ADM * C.EPS0), "apex off the base plane by >= 4 eps")
    out = vc.call(g.Pyramid, base, apex, False)
    vc.ensure("Pyramid(base, apex off the plane) does not raise", out.returned)
    if not out.returned:
        vc.note(repr(out.value))
        return
    pyr = out.value
    base.area = lambda: area  # contract stub of the (bounded-checked) polygon area
    oh = vc.call(pyr.height)
    vc.ensure("height() does not raise", oh.returned)
    if oh.returned:
        h = oh.value
        vc.ensure("height = |(apex - p0).n|", And(SP.gez(h), SP.eq(h * h, h_exact * h_exact)))
        ov = vc.call(pyr.volume)
        vc.ensure("volume() does not raise", ov.returned)
        if ov.returned:
            v = ov.value
            third = h * area / 3
            tol = h * area * Fraction(1, 10 ** 9)
            vc.ensure("volume = h A / 3 (relative 1e-9)", And(SP.gez(v - third + tol), SP.gez(third + tol - v)))
            o2 = vc.call(VOL.volume, pyr)
            vc.ensure("volume(pyramid) does not raise", o2.returned)
            if o2.returned:
                vc.ensure("volume(pyramid) == pyramid.volume()", SP.eq(o2.value, v))
            else:
                vc.note(repr(o2.value))


def groups(tier):
    from props.C01 import coord_stubs
    cs = coord_stubs() + [(C.T_NORMALIZED, C.x_normalized), (C.T_LENGTH, C.x_length), (C.T_ILP, C.x_inter_line_plane)]
    return [
        Group("Segment.length / Point.distance", h_segment_length, ["Geometry3D.geometry.segment:Segment.length", "Geometry3D.geometry.point:Point.distance"], world="COORD", timeout_s=120),
        Group("get_triangle_area = |AB x AC| / 2", h_triangle_area, ["Geometry3D.geometry.polygon:get_triangle_area"], world="SCALAR", timeout_s=300, prove_ms=30000),
        Group("Pyramid.height / volume, volume(pyramid)", h_pyramid, ["Geometry3D.geometry.pyramid:Pyramid.__init__", "Geometry3D.geometry.pyramid:Pyramid.height",
              "Geometry3D.geometry.pyramid:Pyramid.volume", "Geometry3D.calc.volume:volume"], stubs=cs, world="COORD", timeout_s=600, prove_ms=30000),
    ]


def bounded(tier, seed):
    from g3dvc import bounded as B
    n, perms = (16, 3) if tier == "quick" else (60, 12)
    return [("measures of catalogue polygons and polyhedra under permutations / orientations", B.measures, (seed, n, perms), 3000)]


def replay_case(case):
    from g3dvc import bounded as B
    return B.replay_measures(case)
