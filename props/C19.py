"""C19 - tolerance is uniform and follows set_eps / set_sig_figures."""
import builtins
import itertools
import math
from fractions import Fraction

from g3dvc.runner import Group
from g3dvc.sym import Sym, SymBool, F, And, Or, Not, Implies, Iff
from g3dvc import spec as SP
from contracts import common as C
from props import C05, C16

PROPERTY = "C19"
LEVEL = "proof"
ASSUMES = ["A1", "A2", "A3", "A5", "A6"]
CONST = "Geometry3D.utils.constant:"
SETTINGS = [(10.0 ** -k, k) for k in range(5, 13)]
HASH_MODULES = ["Geometry3D.geometry.point", "Geometry3D.utils.vector", "Geometry3D.geometry.line", "Geometry3D.geometry.plane", "Geometry3D.geometry.segment",
                "Geometry3D.geometry.halfline", "Geometry3D.geometry.polygon", "Geometry3D.geometry.polyhedron"]
MANIFEST = dict(
    text=("(1) The configuration invariant get_sig_figures() = round(-log10(get_eps())), eps = 10^-sig, and the defaults, are checked for both setters from every prior configuration over the whole configuration "
          "set the property names (1e-12..1e-5): each setter's post-state is shown to depend on its argument only, so the invariant holds after any call sequence and restoring eps restores behaviour. "
          "(2) Reads clause, deductive: every tolerance predicate (Vector/Point ==, orthogonal, parallel, null, Point in Plane/Segment/HalfLine) is proved against its tolerance contract "
          "'within eps/1000 => equal/True, beyond 4 eps => unequal/False' with eps a symbolic real installed only behind get_eps(), so a stale copy of the tolerance fails the proof; every round() reached from a "
          "__hash__ is shown to take its digit count from the live get_sig_figures() (taint tracking on the straight-line hash code of all eight hashable types)."),
    note=("A3: log10/round are executed natively on the finite configuration set, not modelled. The 'hash equal / contain each other / intersect as coincident' clause for eps/1000-perturbed objects of the composite types is a "
          "labelled bounded stand-in over catalogue objects whose hashed quantities are away from rounding boundaries (not counted as proved)."),
    technique='contract-based deductive verification: finite configuration space enumerated completely, tolerance predicates with symbolic eps, hash digits by taint tracking, poisoned import-time copies (z3) + labelled bounded configuration histories on perturbed catalogue objects',
    design_ref="DESIGN.md section 9 (C19), section 4",
)
EXPLANATION = "finite configuration space enumerated completely; tolerance predicates proved with symbolic eps; hash digit counts by taint tracking"


def _raises(f):
    try:
        f()
    except Exception:
        return True
    return False


def h_setters(vc):
    """both setters from every prior configuration, default-argument forms included"""
    g = C.G()
    prior_states = [("set_eps", e) for e, _ in SETTINGS] + [("set_sig_figures", k) for _, k in SETTINGS] + [("set_eps", None), ("set_sig_figures", None)]
    calls = list(prior_states)

    def do(call):
        name, arg = call
        fn = getattr(g, name)
        return fn() if arg is None else fn(arg)

    post = {}
    try:
        for call in calls:
            states = set()
            for prior in prior_states:
                do(prior)
                out = vc.call(do, call)
                vc.ensure("%s(%s) does not raise" % call, out.returned)
                states.add((g.get_eps(), g.get_sig_figures()))
            vc.ensure("%s(%s): the resulting configuration depends on the argument only (any history)" % call, len(states) == 1)
            eps, sig = sorted(states)[0]
            post[call] = (eps, sig)
            vc.ensure("%s(%s): get_sig_figures() = round(-log10(get_eps()))" % call, sig == round(-math.log10(eps)) and isinstance(sig, int))
            vc.ensure("%s(%s): eps = 10^-sig" % call, abs(eps - 10.0 ** (-sig)) <= 1e-9 * eps)
            name, arg = call
            if arg is None:
                vc.ensure("%s(): defaults 1e-10 and 10" % name, abs(eps - 1e-10) <= 1e-22 and sig == 10)
            elif name == "set_eps":
                vc.ensure("set_eps(%s): get_eps() returns it" % arg, eps == arg)
            else:
                vc.ensure("set_sig_figures(%s): get_sig_figures() returns it" % arg, sig == arg)
        # tolerances that are not powers of ten: get_eps() returns exactly what was set, the digit count is round(-log10(eps)), comparisons use the value
        for e in (4e-6, 3.5e-9, 2.5e-7, 2.0 ** -18, 7e-6, 1.5e-12):
            for prior in (("set_eps", 1e-5), ("set_sig_figures", 12), ("set_eps", None)):
                do(prior)
                out = vc.call(g.set_eps, e)
                vc.ensure("set_eps(%r) does not raise" % e, out.returned)
                vc.ensure("set_eps(%r): get_eps() returns it and get_sig_figures() = round(-log10(eps))" % e, g.get_eps() == e and g.get_sig_figures() == round(-math.log10(e)))
                a, b, c = g.Point(0.5, 1.25, -2.0), g.Point(0.5 + e / 4, 1.25, -2.0), g.Point(0.5, 1.25 - 5 * e, -2.0)
                vc.ensure("set_eps(%r): Points e/4 apart compare equal, Points 5e apart unequal; Line(P, P + e/4) is rejected" % e,
                          (a == b) and not (a == c) and _raises(lambda: g.Line(a, b)) and not _raises(lambda: g.Line(a, c)))
        for (e, k) in SETTINGS:
            vc.ensure("set_eps(%g) and set_sig_figures(%d) agree" % (e, k), abs(post[("set_eps", e)][0] - post[("set_sig_figures", k)][0]) <= 1e-9 * e
                      and post[("set_eps", e)][1] == post[("set_sig_figures", k)][1])
    finally:
        g.set_eps()
    import Geometry3D.utils.constant as K
    vc.ensure("module state restored to the defaults", K.FLOAT_EPS == 1e-10 and K.SIG_FIGURES == 10)


class LiveInt(int):
    """the value returned by the (stubbed) live get_sig_figures(); arithmetic keeps the taint"""

    def __sub__(self, o):
        return LiveInt(int(self) - int(o))

    def __add__(self, o):
        return LiveInt(int(self) + int(o))

    __radd__ = __add__


def h_hash_digits(vc):
    """every round() reached from a __hash__ takes its digits from the live setting"""
    g = C.G()
    import importlib
    log = []

    def make_round(modname):
        def rec_round(x, k=None):
            log.append((modname, type(k) is LiveInt, k))
            return builtins.round(x, k)
        return rec_round

    saved = []
    live = LiveInt(7)
    try:
        for mn in HASH_MODULES:
            m = importlib.import_module(mn)
            saved.append((m, "round", vars(m).get("round", None), "round" in vars(m)))
            setattr(m, "round", make_round(mn))
            if "get_sig_figures" in vars(m):
                saved.append((m, "get_sig_figures", vars(m)["get_sig_figures"], True))
                setattr(m, "get_sig_figures", lambda: live)
        P, V = g.Point, g.Vector
        poly = g.ConvexPolygon((P(0, 0, 0), P(2, 0, 0), P(2, 1, 0), P(0, 1, 0)))
        objs = [("Point", P(1, 2, 3)), ("Vector", V(1, 2, 3)), ("Line", g.Line(P(1, 2, 3), V(2, 1, 2))), ("Plane", g.Plane(P(1, 2, 3), V(2, 1, 2))),
                ("Segment", g.Segment(P(1, 2, 3), P(2, 4, 4))), ("HalfLine", g.HalfLine(P(1, 2, 3), V(2, 1, 2))), ("ConvexPolygon", poly),
                ("ConvexPolyhedron", g.Parallelepiped(P(0, 0, 0), V(1, 0, 0), V(0, 2, 0), V(0, 0, 3)))]
        for name, o in objs:
            fns = [("hash", lambda o=o: hash(o))]
            if name == "ConvexPolygon":
                fns.append(("hash_with_normal", lambda o=o: o.hash_with_normal()))
            for fname, f in fns:
                del log[:]
                out = vc.call(f)
                vc.ensure("%s.%s does not raise" % (name, fname), out.returned)
                vc.ensure("%s.%s rounds something" % (name, fname), len(log) > 0)
                stale = sorted(set(m for m, ok, k in log if not ok))
                vc.ensure("%s.%s: every round() uses digits from the live get_sig_figures()" % (name, fname), not stale)
                if stale:
                    vc.note("%s.%s rounds with a stale digit count in %s" % (name, fname, stale))
    finally:
        for m, n, old, had in reversed(saved):
            if had:
                setattr(m, n, old)
            else:
                delattr(m, n)


def groups(tier):
    gs = [Group("setters/getters[all configurations x all prior configurations]", h_setters,
                [CONST + "set_eps", CONST + "set_sig_figures", CONST + "get_eps", CONST + "get_sig_figures"], world="CONFIG", timeout_s=120, patches=False),
          Group("hash digits are live[all hashable types]", h_hash_digits, [m + ":__hash__" for m in HASH_MODULES], world="CONFIG", timeout_s=120, patches=False)]
    gs += C05.tolerance_groups()
    gs.append(Group("null[tolerance contract]", C16.make_null_harness(), ["Geometry3D.utils.solver:null"], stubs=[(C16.T_GET_EPS, C16.stub_get_eps)],
                    expect_hits=["get_eps"], world="SCALAR", timeout_s=60))
    return gs


# ---------------------------------------------------------------------------
# no stale copy of the tolerance is read anywhere: the import-time copies are poisoned
# ---------------------------------------------------------------------------

class StaleRead(Exception):
    pass


class Poison(object):
    """stands in for the star-imported copies FLOAT_EPS / SIG_FIGURES in the geometry modules: any use raises"""

    def __init__(self, name):
        self._name = name

    def _boom(self, *a, **k):
        raise StaleRead("a stale import-time copy of %s was used" % self._name)

    __lt__ = __le__ = __gt__ = __ge__ = __add__ = __radd__ = __sub__ = __rsub__ = __mul__ = __rmul__ = __truediv__ = __rtruediv__ = __neg__ = __abs__ = _boom
    __index__ = __int__ = __float__ = __round__ = __pow__ = __rpow__ = __bool__ = _boom

    def __repr__(self):
        return "<poisoned %s>" % self._name


def h_no_stale_reads(vc):
    """every public query on every type runs with the import-time copies poisoned; the live values stay readable through the getters"""
    import importlib
    import sys
    g = C.G()
    from g3dvc import oracle as O
    from g3dvc import catalogue as K
    saved = []
    mods = [m for n, m in sys.modules.items() if m is not None and n.startswith("Geometry3D.") and n != "Geometry3D.utils.constant"] + [sys.modules["Geometry3D"]]
    try:
        for m in mods:
            for nm in ("FLOAT_EPS", "SIG_FIGURES"):
                if nm in vars(m):
                    saved.append((m, nm, vars(m)[nm]))
                    setattr(m, nm, Poison(nm))
        vc.ensure("the import-time copies exist and are poisoned (non-vacuous)", len(saved) >= 4)
        rng = K.make_rng(19)
        pool = []
        for kind in ("Point", "Line", "HalfLine", "Segment", "Plane"):
            for o in K.flat_objects(kind, rng, 2):
                R, t, k = K.random_pose(rng)
                pool.append(O.to_lib(K.transform(o, R, t, k), "float"))
        pool.append(g.Plane(g.Point(1, 2, 3), g.Vector(0, 0, 1)))
        pool.append(g.Plane(g.Point(1, 2, 3), g.Vector(0, -3, 4)))
        pool.append(g.Line(g.Point(1, 2, 3), g.Vector(0, 0, -2)))
        pool += [O.to_lib(pg, "float") for pg in K.polygons(rng, 2)] + [O.to_lib(ph, "float") for ph in K.polyhedra(rng, 2)]
        pool.append(g.Vector(1, -2, 2))
        stale = []
        n = 0
        queries = [("hash", lambda a, b: hash(a)), ("==", lambda a, b: a == b), ("in", lambda a, b: a in b), ("intersection", lambda a, b: g.intersection(a, b)),
                   ("distance", lambda a, b: g.distance(a, b)), ("angle", lambda a, b: g.angle(a, b)), ("parallel", lambda a, b: g.parallel(a, b)), ("orthogonal", lambda a, b: g.orthogonal(a, b)),
                   ("move", lambda a, b: __import__("copy").deepcopy(a).move(g.Vector(1, 2, 3))), ("neg", lambda a, b: -a), ("measures", lambda a, b: [getattr(a, m)() for m in ("length", "area", "volume") if hasattr(a, m)]),
                   ("hash_with_normal", lambda a, b: a.hash_with_normal()), ("parametric", lambda a, b: a.parametric()), ("general_form", lambda a, b: a.general_form())]
        for qn, q in queries:
            for a in pool:
                for b in pool:
                    n += 1
                    try:
                        q(a, b)
                    except StaleRead as e:
                        stale.append("%s(%s, %s): %s" % (qn, type(a).__name__, type(b).__name__, e))
                    except Exception:
                        pass  # unsupported pairs raise; only stale reads matter here
        for cons in (lambda: g.Circle(g.Point(0, 0, 0), g.Vector(1, 2, 2), 2, 6), lambda: g.Cylinder(g.Point(0, 0, 0), 1, g.Vector(0, 0, 2), 5), lambda: g.Sphere(g.Point(0, 0, 0), 1, 5, 2),
                     lambda: g.Parallelepiped(g.Point(0, 0, 0), g.Vector(1, 0, 0), g.Vector(0, 2, 0), g.Vector(1, 1, 3)), lambda: g.solve([[1, 2, 3], [0, 1e-12, 1]])):
            n += 1
            try:
                cons()
            except StaleRead as e:
                stale.append("builder: %s" % e)
            except Exception:
                pass
        vc.ensure("queries exercised", n > 1000)
        vc.ensure("no query, constructor or hash reads an import-time copy of the tolerance (all reads go through get_eps / get_sig_figures)", not stale)
        for s_ in sorted(set(stale))[:5]:
            vc.note(s_)
    finally:
        for m, nm, old in saved:
            setattr(m, nm, old)


_groups_core = groups


def groups(tier):
    return _groups_core(tier) + [Group("no stale copy of the tolerance is read[import-time copies poisoned, all queries]", h_no_stale_reads,
                                       ["Geometry3D.geometry.*", "Geometry3D.calc.*", "Geometry3D.utils.vector", "Geometry3D.utils.solver"], world="CONFIG", timeout_s=600, patches=False)]


# ---------------------------------------------------------------------------
# bounded stand-in: perturbed objects under changing configurations, objects reused across the changes
# ---------------------------------------------------------------------------

def bounded_configurations(seed):
    import copy
    import random
    from g3dvc.engine import load_repo
    g = load_repo()
    P, V = g.Point, g.Vector
    rng = random.Random(seed + 19)
    ev = 0
    classes = set()
    failures = []
    samples = []

    def fail(klass, what, case):
        if len(failures) < 8 and klass not in [f["class"] for f in failures]:
            failures.append({"class": klass, "what": what, "case": case})

    # catalogue objects: coordinates multiples of 1/8, frames with rational unit vectors (axis and Pythagorean)
    frames = [((1, 0, 0), (0, 1, 0), (0, 0, 1)), ((1 / 3, 2 / 3, 2 / 3), (2 / 3, 1 / 3, -2 / 3), (2 / 3, -2 / 3, 1 / 3)), ((2 / 7, 3 / 7, 6 / 7), (3 / 7, -6 / 7, 2 / 7), (6 / 7, 2 / 7, -3 / 7)),
              # the same Pythagorean frames with the axes rotated: the first edge vector then has two largest components of equal size and opposite sign
              ((2 / 3, 1 / 3, -2 / 3), (2 / 3, -2 / 3, 1 / 3), (1 / 3, 2 / 3, 2 / 3)), ((2 / 3, -2 / 3, 1 / 3), (1 / 3, 2 / 3, 2 / 3), (2 / 3, 1 / 3, -2 / 3)),
              # axis frames anchored at odd multiples of 1/8: the coordinates themselves are far from every rounding boundary, their products are not
              ((1, 0, 0), (0, 1, 0), (0, 0, 1), (0.125, 0.125, 1.0)), ((1, 0, 0), (0, 1, 0), (0, 0, 1), (0.125, -0.375, 0.625)), ((0, 1, 0), (0, 0, 1), (1, 0, 0), (0.375, 0.125, -0.125))]

    def make(kind, fr, d):
        """object of the kind in frame fr with its first defining coordinate perturbed by d"""
        e1, e2, e3 = fr[:3]
        o = fr[3] if len(fr) > 3 else (0.5, -1.25, 2.0)
        pt = lambda a, b, c, dx=0.0: P(o[0] + a * e1[0] + b * e2[0] + c * e3[0] + dx, o[1] + a * e1[1] + b * e2[1] + c * e3[1], o[2] + a * e1[2] + b * e2[2] + c * e3[2])
        if kind == "Point":
            return pt(1, 2, 0, d)
        if kind == "Vector":
            return V(3 * e1[0] + d, 3 * e1[1], 3 * e1[2])
        if kind == "Line":
            return g.Line(pt(1, 2, 0, d), V(*[3 * c for c in e1]))
        if kind == "Line(2 points)":
            return g.Line(pt(1, 2, 0, d), pt(4, 2, 0))
        if kind == "Line(direction perturbed)":
            return g.Line(pt(1, 2, 0), V(3 * e1[0] - d, 3 * e1[1], 3 * e1[2] - d))
        if kind == "HalfLine(direction perturbed)":
            return g.HalfLine(pt(0, 0, 0), V(3 * e1[0] - d, 3 * e1[1], 3 * e1[2] - d))
        if kind == "Plane(normal perturbed)":
            return g.Plane(pt(1, 2, 0), V(e3[0] - d, e3[1], e3[2] - d))
        if kind == "Plane":
            return g.Plane(pt(1, 2, 0, d), V(*e3))
        if kind == "Segment":
            return g.Segment(pt(0, 0, 0, d), pt(3, 0, 0))
        if kind == "HalfLine":
            return g.HalfLine(pt(0, 0, 0, d), V(*[3 * c for c in e1]))
        if kind == "ConvexPolygon":
            return g.ConvexPolygon((pt(0, 0, 0, d), pt(3, 0, 0), pt(3, 2, 0), pt(0, 2, 0)))
        if kind == "ConvexPolyhedron":
            sq = lambda c, dd=0.0: g.ConvexPolygon((pt(0, 0, c, dd), pt(3, 0, c), pt(3, 2, c), pt(0, 2, c)))
            side = lambda a1, b1, a2, b2: g.ConvexPolygon((pt(a1, b1, 0, d if (a1, b1) == (0, 0) else 0.0), pt(a2, b2, 0, d if (a2, b2) == (0, 0) else 0.0), pt(a2, b2, 1), pt(a1, b1, 1)))
            return g.ConvexPolyhedron((sq(0, d), sq(1), side(0, 0, 3, 0), side(3, 0, 3, 2), side(3, 2, 0, 2), side(0, 2, 0, 0)))
        raise KeyError(kind)

    kinds = ["Point", "Vector", "Line", "Line(2 points)", "Line(direction perturbed)", "HalfLine(direction perturbed)", "Plane", "Plane(normal perturbed)", "Segment", "HalfLine", "ConvexPolygon", "ConvexPolyhedron"]
    settings = [10.0 ** -k for k in range(5, 13)]
    try:
        for fi, fr in enumerate(frames):
            for kind in kinds:
                base = make(kind, fr, 0.0)
                # the same objects are reused across all configuration changes (hash / == before and after each change)
                reused = {}
                order = settings[:]
                rng.shuffle(order)
                for eps in order + [1e-10]:
                    setter = rng.choice(("set_eps", "set_sig_figures"))
                    if setter == "set_eps":
                        g.set_eps(eps)
                    else:
                        g.set_sig_figures(round(-math.log10(eps)))
                    near = reused.setdefault(("near", eps), make(kind, fr, eps / 1000))
                    far = reused.setdefault(("far", eps), make(kind, fr, 4.5 * eps)) if kind in ("Point", "Vector") else None
                    klass = "%s frame%d" % (kind, fi)
                    ev += 1
                    classes.add(klass)
                    case = dict(kind=kind, frame=fi, eps=eps, setter=setter)
                    try:
                        eq_near = (base == near) and (near == base)
                        h_near = hash(base) == hash(near)
                        eq_far = (base == far) if far is not None else False
                        # objects built at another setting are reused here: answers must follow the CURRENT setting
                        for (tag, e0), obj in list(reused.items()):
                            expect = True if (tag == "near" and e0 / 1000 <= eps / 1000) else (False if (tag == "far" and 4.5 * e0 > 4 * eps and kind in ("Point", "Vector")) else None)
                            if expect is not None and kind in ("Point", "Vector") and (base == obj) != expect:
                                fail(klass, "object built under eps=%g compares %r with the base under eps=%g (expected %r)" % (e0, base == obj, eps, expect), case)
                    except Exception as e:
                        fail(klass, "== / hash raised %r" % (e,), case)
                        continue
                    if not eq_near:
                        fail(klass, "objects differing by eps/1000 do not compare equal", case)
                    elif not h_near:
                        fail(klass, "objects differing by eps/1000 compare equal but hash differently", case)
                    if kind in ("Point", "Vector") and eq_far:
                        fail(klass, "%ss differing by 4.5 eps compare equal" % kind, case)
                    if kind not in ("Point", "Vector"):
                        try:
                            if kind in ("Line", "Plane", "Segment", "HalfLine"):  # (the variants with a perturbed direction share the defining point exactly)
                                pts = {"Line": lambda: [P(*[near.sv[i] for i in range(3)])], "Plane": lambda: [near.p], "Segment": lambda: [near.start_point, near.end_point],
                                       "HalfLine": lambda: [near.point]}[kind]()
                                if not all(p in base for p in pts):
                                    fail(klass, "the defining points of the eps/1000-perturbed object are not contained in the original", case)
                            inter = g.intersection(base, near)
                            if inter is None or type(inter) is not type(base):
                                fail(klass, "eps/1000-perturbed objects do not intersect as coincident (got %s)" % type(inter).__name__, case)
                        except Exception as e:
                            fail(klass, "membership / intersection of eps/1000-perturbed objects raised %r" % (e,), case)
                    want_sig = round(-math.log10(eps))
                    if g.get_sig_figures() != want_sig or abs(g.get_eps() - 10.0 ** -want_sig) > 1e-9 * eps:
                        fail(klass, "the queries (==, hash, in, intersection) changed the tolerance: get_eps() = %r, get_sig_figures() = %r after %s for eps = %g" % (g.get_eps(), g.get_sig_figures(), setter, eps), case)
                    if len(samples) < 2:
                        samples.append(case)
                # restoring the default restores the default behaviour on the reused objects
                g.set_eps()
                ev += 1
                classes.add("%s restore" % kind)
                near5, near10 = reused[("near", 1e-5)], reused[("near", 1e-10)]
                try:
                    if kind in ("Point", "Vector"):
                        if (base == near5) or not (base == near10):
                            fail("%s restore" % kind, "after restoring eps=1e-10: 1e-8-perturbed compares %r (expected False), 1e-13-perturbed compares %r (expected True)" % (base == near5, base == near10), dict(kind=kind, frame=fi))
                    elif not (base == near10 and hash(base) == hash(near10)):
                        fail("%s restore" % kind, "after restoring eps=1e-10 the 1e-13-perturbed object no longer compares / hashes equal", dict(kind=kind, frame=fi))
                    if kind in ("ConvexPolygon", "ConvexPolyhedron", "Line", "Plane") and (base == near5) and hash(base) != hash(near5):
                        fail("%s restore" % kind, "after restoring eps=1e-10 a reused pair compares equal but hashes differently", dict(kind=kind, frame=fi))
                    if kind == "ConvexPolygon":
                        try:
                            fresh_pair = make(kind, fr, 1e-8)
                        except ValueError:
                            fresh_pair = None  # not constructible at the restored tolerance (vertex off the plane by more than eps)
                        if fresh_pair is not None and (base == near5) != (base == fresh_pair):
                            fail("%s restore" % kind, "a pair reused across configuration changes compares %r, a fresh pair %r" % (base == near5, base == fresh_pair), dict(kind=kind, frame=fi))
                except Exception as e:
                    fail("%s restore" % kind, "raised %r" % (e,), dict(kind=kind, frame=fi))
    finally:
        g.set_eps()
    return dict(evaluations=ev, classes=sorted(classes), failures=failures, samples=samples)


def bounded(tier, seed):
    return [("perturbed catalogue objects under changing configurations (objects reused across the changes)", bounded_configurations, (seed,), 3000)]


def replay_case(case):
    r = bounded_configurations(0)
    return dict(fails=bool(r["failures"]), observed=[f["what"] for f in r["failures"][:3]])
