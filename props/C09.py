"""C09 - polygon / polyhedron construction is order-independent and canonical."""
import itertools
from fractions import Fraction

from g3dvc.runner import Group
from g3dvc.sym import Sym, SymBool, F, And, Or, Not, Implies, Iff
from g3dvc import spec as SP
from g3dvc import sym as S
from contracts import common as C
from contracts.sem import sem_equal

PROPERTY = "C09"
LEVEL = "other"
ASSUMES = ["A1", "A2", "A3", "A4", "A5", "A6"]
PGM = "Geometry3D.geometry.polygon:ConvexPolygon."
MANIFEST = dict(
    text=("Mixed. PROVED: the vertex sort of ConvexPolygon (_check_and_sort_points) for n = 3 and n = 4 in EVERY input order (all n! permutations of a strictly convex polygon, each with symbolic in-plane coordinates) and for n = 5 in eight representative orders on every change, all 120 in the thorough tier: the result is a cyclic rotation "
          "of the counter-clockwise order, no vertex is lost, no 'convex check' error is raised; the frame lemma that ties the in-plane coordinates (p - c).v0, (p - c).v1 back to n.((b - a) x (j - a)) (Binet-Cauchy + BAC-CAB); the constructor's front end "
          "for 3-5 input points with every duplication pattern: duplicates are merged keeping first occurrences, fewer than three given points raise, the plane is the plane of the first three distinct points (negated for reverse=True), the centre is the "
          "vertex mean, the input tuple is deep-copied; -polygon is built from the same vertices with reverse=True and the plane of -(polygon) has the opposite normal, so -(-p) has the normal of p. "
          "ConvexPolyhedron.__init__ on a tetrahedron with symbolic vertices, faces in shuffled order and in given orientations (4 orientation patterns on every change; thorough: all 16, plus triangular prisms and parallelepipeds): no exception, "
          "V / E / F of the body, centre = vertex mean, every stored normal points away from the centre, one pyramid per face, the given faces are neither modified nor shared. "
          "BOUNDED (labelled): all permutations / duplications for catalogue polygons with 3-8 vertices, all face orders and sampled 2^F orientation choices for catalogue polyhedra (outward normals, vertex / edge / face sets, V - E + F = 2, centre inside), "
          "and intersection results fed back as inputs."),
    note=("A3: atan2 enters only through the sign of z, its values on the axes and the cross-product order of angles in the same open half-plane. The sort proof is in the in-plane frame of the code ((p - c).v0, (p - c).v1 as ghost coordinates), "
          "shape bound n <= 5; n >= 6 and the polyhedron constructor (hash sets) are bounded only. A4, A5."),
    technique="contract-based deductive verification of the vertex sort in the in-plane frame and of the constructor front end (z3) + labelled bounded stand-in over permutations / orientations",
    design_ref="DESIGN.md section 9 (C09), section 3.4",
)
EXPLANATION = "proved: vertex sort n = 3, 4 in all input orders, frame lemma, constructor front end, negation; bounded: larger n, polyhedra"
BOUNDED_ONLY = ["Geometry3D.geometry.polyhedron:ConvexPolyhedron.__init__ (bodies other than tetrahedron / prism / parallelepiped)", "Geometry3D.geometry.polygon:ConvexPolygon._check_and_sort_points (n >= 6)"]


def cross2(u, w):
    return u[0] * w[1] - u[1] * w[0]


def sub2(a, b):
    return (a[0] - b[0], a[1] - b[1])


def sort_harness(n, perm, pin_first=False):
    """_check_and_sort_points on n points given in the order perm of a strictly convex counter-clockwise polygon q_0..q_{n-1}, in the code's own
    in-plane frame: Y_i = (p_i - c).v0, Z_i = (p_i - c).v1 are ghost coordinates (the two inner products are the only thing the body uses)"""

    def h(vc):
        import importlib
        g = C.G()
        if not vc.symbolic:
            return _sort_concrete(vc, n, perm)
        q = [(vc.real("Y%d" % i), vc.real("Z%d" % i)) for i in range(n)]
        for i in range(n):
            a, b = q[i], q[(i + 1) % n]
            for j in range(n):
                if j not in (i, (i + 1) % n):
                    vc.assume(cross2(sub2(b, a), sub2(q[j], a)) > 0, "precondition: strictly convex position, counter-clockwise (all pairs)")
        vc.assume(And(sum(p[0] for p in q) == 0, sum(p[1] for p in q) == 0), "the centre (vertex mean) is the origin of the frame")
        p = [q[k] for k in perm]
        vc.assume(And(p[0][1] == 0, p[0][0] > 0), "v0 points from the centre to the first given vertex")
        pg = g.ConvexPolygon.__new__(g.ConvexPolygon)
        pts = [g.Point(vc.fresh("x"), vc.fresh("y"), vc.fresh("z")) for _ in range(n)]  # 3-D coordinates are irrelevant to the body
        pg.points = list(pts)
        pg.center_point = g.Point(vc.fresh("cx"), vc.fresh("cy"), vc.fresh("cz"))
        pl = g.Plane.__new__(g.Plane)
        pl.p, pl.n = pts[0], g.Vector(vc.fresh("nx"), vc.fresh("ny"), vc.fresh("nz"))
        pg.plane = pl
        calls = []

        def mul_stub(self_, other):  # the 2n inner products pv * v0, pv * v1 in program order
            if isinstance(other, g.Vector):
                k = len(calls)
                calls.append(k)
                vc.hit("Vector.__mul__[frame coordinate]")
                return p[k // 2][k % 2]
            return ORIG_MUL(self_, other)

        ORIG_MUL = g.Vector.__dict__["__mul__"]
        g.Vector.__mul__ = mul_stub
        try:
            out = vc.call(pg._check_and_sort_points, _mutates=(pg,))
        finally:
            g.Vector.__mul__ = ORIG_MUL
        vc.ensure("sort does not raise (no 'Convex Check Fails')", out.returned)
        if not out.returned:
            vc.note(repr(out.value))
            return
        vc.ensure("exactly 2n frame coordinates were read", len(calls) == 2 * n)
        res = list(pg.points)
        idx = [next((i for i, pt in enumerate(pts) if pt is r), None) for r in res]
        vc.ensure("no vertex lost or invented", len(res) == n and None not in idx and sorted(idx) == list(range(n)))
        if len(res) == n and None not in idx:
            order = [perm[i] for i in idx]  # indices in the counter-clockwise polygon q
            rot = order.index(0)
            vc.ensure("the result is a cyclic rotation of the counter-clockwise order", [order[(rot + k) % n] for k in range(n)] == list(range(n)))
            if pin_first:
                # not part of C09 (the property leaves the start of the cycle free): a callee-contract clause for callers that hand in a cycle that is
                # already counter-clockwise and rely on getting it back as given (props/C07: ConvexPolyhedron.move through ConvexPolygon.move)
                vc.ensure("callee clause: the first given vertex stays first (a cycle given counter-clockwise comes back as given)", idx[0] == 0)
            vc.note("order %s" % order)
        vc.ensure("result is a tuple", isinstance(pg.points, tuple))

    return h


def _sort_concrete(vc, n, perm):
    """native replay: a concrete convex n-gon given in the order perm, through the real constructor"""
    g = C.G()
    import math
    base = {3: [(4, 0, 0), (-1, 3, 0), (-2, -2, 0)], 4: [(4, 0, 0), (0, 3, 0), (-3, 0, 0), (0, -2, 0)], 5: [(4, 0, 0), (2, 3, 0), (-2, 3, 0), (-4, -1, 0), (1, -4, 0)]}[n]
    pts = [g.Point(*base[k]) for k in perm]
    out = vc.call(g.ConvexPolygon, tuple(pts))
    vc.ensure("sort does not raise (no 'Convex Check Fails')", out.returned)
    if out.returned:
        res = [(p.x, p.y) for p in out.value.points]
        order = [base.index((x, y, 0)) for x, y in res]
        rot = order.index(0)
        nz = out.value.plane.n[2]
        seq = [order[(rot + k) % n] for k in range(n)]
        vc.ensure("the result is a cyclic rotation of the counter-clockwise order", seq == (list(range(n)) if nz > 0 else [0] + list(range(n - 1, 0, -1))))


def h_frame_lemma(vc):
    """n.(u x w) = (u.v0)(w.v1) - (u.v1)(w.v0) for v1 = n x v0, |v0| = 1, v0 orthogonal to n  (Binet-Cauchy, then v0 x (n x v0) = n)"""
    u, w, v0, n = C.witness(vc, "u"), C.witness(vc, "w"), C.witness(vc, "v0"), C.witness(vc, "n")
    vc.assume(And(SP.eq(SP.norm2(v0), 1), SP.eqz(SP.dot(v0, n))), "|v0| = 1, v0 orthogonal to n")
    v1 = SP.cross(n, v0)
    uw = SP.cross(u, w)
    lhs = SP.dot(u, v0) * SP.dot(w, v1) - SP.dot(u, v1) * SP.dot(w, v0)
    if vc.symbolic:
        vc.hint("Binet-Cauchy", lhs == SP.dot(uw, SP.cross(v0, v1)))
        vc.hint("BAC-CAB", And(*[SP.cross(v0, v1)[i] == n[i] * SP.norm2(v0) - v0[i] * SP.dot(v0, n) for i in range(3)]))
        vc.hint("dot with the expansion", SP.dot(uw, SP.cross(v0, v1)) == SP.dot(uw, n) * SP.norm2(v0) - SP.dot(uw, v0) * SP.dot(v0, n))
        vc.ghost(lhs, SP.dot(uw, SP.cross(v0, v1)), SP.dot(uw, n), SP.norm2(v0), SP.dot(uw, v0), SP.dot(v0, n))
    vc.ensure("frame lemma: in-plane cross product of the frame coordinates = n.(u x w)", SP.eq(lhs, SP.dot(uw, n)))


def front_end_harness(pattern, reverse):
    """ConvexPolygon.__init__ with the vertex sort replaced by its contract (a permutation of self.points): pattern = tuple of indices into distinct points,
    e.g. (0, 1, 0, 2) = four given points, the third repeats the first"""

    def h(vc):
        import importlib
        g = C.G()
        k = max(pattern) + 1
        distinct = [C.P(vc, "p%d" % i) for i in range(k)]
        for i in range(k):
            for j in range(i + 1, k):
                vc.assume(Not(SP.veq(SP.vec(distinct[i]), SP.vec(distinct[j]))), "the distinct points differ")
        if k >= 3:
            vc.assume(Not(SP.collinear(SP.sub(SP.vec(distinct[1]), SP.vec(distinct[0])), SP.sub(SP.vec(distinct[2]), SP.vec(distinct[0])))), "the first three distinct points are not collinear")
        given = tuple(g.Point(*SP.vec(distinct[i])) for i in pattern)
        before = [vc.snapshot(x) for x in given]
        seen = []

        def sort_stub(self_):
            vc.hit("_check_and_sort_points")
            seen.append(list(self_.points))
            self_.points = tuple(self_.points)
            return True

        orig = g.ConvexPolygon.__dict__["_check_and_sort_points"]
        g.ConvexPolygon._check_and_sort_points = sort_stub
        try:
            out = vc.call(lambda: g.ConvexPolygon(given, reverse=reverse))
        finally:
            g.ConvexPolygon._check_and_sort_points = orig
        if len(pattern) < 3:
            vc.ensure("fewer than three given points raise", out.raised(ValueError))
            return
        if k < 3:
            vc.ensure("fewer than three distinct points raise", out.raised())
            return
        vc.ensure("constructor front end does not raise", out.returned)
        if not out.returned:
            vc.note(repr(out.value))
            return
        pg = out.value
        first = []
        for i in pattern:
            if i not in first:
                first.append(i)
        pts = seen[0] if seen else []
        vc.ensure("duplicates are merged, first occurrences kept in order", len(pts) == k and And(*[SP.veq(SP.vec(a), SP.vec(distinct[i])) for a, i in zip(pts, first)]) if len(pts) == k else False)
        d0, d1, d2 = [SP.vec(distinct[i]) for i in first[:3]]
        nn = SP.cross(SP.sub(d1, d0), SP.sub(d2, d0))
        qn = SP.vec(pg.plane.n)
        sign = -1 if reverse else 1
        vc.ensure("plane: unit normal, positive multiple of %s(d1 - d0) x (d2 - d0)" % ("-" if reverse else ""), And(SP.eq(SP.norm2(qn), 1), SP.collinear(qn, nn), SP.gtz(sign * SP.dot(qn, nn))))
        vc.ensure("plane passes through the first distinct point", SP.eqz(SP.dot(SP.sub(SP.vec(pg.plane.p), d0), nn)))
        cx = [sum(SP.vec(distinct[i])[c] for i in range(k)) / k for c in range(3)]
        vc.ensure("centre is the mean of the distinct vertices", SP.veq(SP.vec(pg.center_point), cx))
        from g3dvc.engine import mutable_ids
        vc.ensure("ownership: the polygon shares no mutable object with the given points", not (mutable_ids(pg) & set().union(*[mutable_ids(x) for x in given])))
        vc.ensure("frame: the given points are unchanged", [vc.snapshot(x) for x in given] == before)

    return h


def h_negation(vc):
    """-p is ConvexPolygon(p.points, reverse=True); with p's vertices counter-clockwise about p.plane.n its plane normal is -n"""
    g = C.G()
    pg = C.polygon(vc, "K", 4, convex=True)
    nv = SP.vec(pg.plane.n)
    calls = []
    orig_init = g.ConvexPolygon.__dict__["__init__"]
    orig_sort = g.ConvexPolygon.__dict__["_check_and_sort_points"]

    def sort_stub(self_):
        self_.points = tuple(self_.points)
        return True

    g.ConvexPolygon._check_and_sort_points = sort_stub
    try:
        out = vc.call(lambda: -pg)
    finally:
        g.ConvexPolygon._check_and_sort_points = orig_sort
    vc.ensure("-polygon does not raise", out.returned)
    if not out.returned:
        vc.note(repr(out.value))
        return
    neg = out.value
    qn = SP.vec(neg.plane.n)
    pts = [SP.vec(p) for p in pg.points]
    cr = SP.cross(SP.sub(pts[1], pts[0]), SP.sub(pts[2], pts[0]))
    if vc.symbolic:
        for i in range(3):
            vc.hint("BAC-CAB %d: a vector orthogonal to two edges is parallel to their cross product" % i,
                    SP.cross(cr, nv)[i] == SP.sub(pts[2], pts[0])[i] * SP.dot(SP.sub(pts[1], pts[0]), nv) - SP.sub(pts[1], pts[0])[i] * SP.dot(SP.sub(pts[2], pts[0]), nv))
        vc.hint("edge 1 in plane", SP.dot(SP.sub(pts[1], pts[0]), nv) == SP.dot(SP.sub(pts[1], SP.vec(pg.plane.p)), nv) - SP.dot(SP.sub(pts[0], SP.vec(pg.plane.p)), nv))
        vc.hint("edge 2 in plane", SP.dot(SP.sub(pts[2], pts[0]), nv) == SP.dot(SP.sub(pts[2], SP.vec(pg.plane.p)), nv) - SP.dot(SP.sub(pts[0], SP.vec(pg.plane.p)), nv))
    if vc.symbolic and vc.log.get("normalized"):
        k = vc.log["normalized"][0][0]
        d1, d2 = SP.sub(pts[1], pts[0]), SP.sub(pts[2], pts[0])
        pp_ = SP.vec(pg.plane.p)
        e1 = SP.dot(d1, nv) == SP.dot(SP.sub(pts[1], pp_), nv) - SP.dot(SP.sub(pts[0], pp_), nv)
        e2 = SP.dot(d2, nv) == SP.dot(SP.sub(pts[2], pp_), nv) - SP.dot(SP.sub(pts[0], pp_), nv)
        inpl = [SP.dot(SP.sub(pts[j], pp_), nv) == 0 for j in range(3)]
        vc.have("d1.n = 0", SP.dot(d1, nv) == 0, using=[e1, inpl[0], inpl[1]], abstract=[SP.dot(d1, nv), SP.dot(SP.sub(pts[1], pp_), nv), SP.dot(SP.sub(pts[0], pp_), nv)])
        vc.have("d2.n = 0", SP.dot(d2, nv) == 0, using=[e2, inpl[0], inpl[2]], abstract=[SP.dot(d2, nv), SP.dot(SP.sub(pts[2], pp_), nv), SP.dot(SP.sub(pts[0], pp_), nv)])
        for i in range(3):
            bac = SP.cross(cr, nv)[i] == d2[i] * SP.dot(d1, nv) - d1[i] * SP.dot(d2, nv)
            vc.have("(d1 x d2) x n = 0, component %d" % i, SP.cross(cr, nv)[i] == 0, using=[bac, SP.dot(d1, nv) == 0, SP.dot(d2, nv) == 0], abstract=[SP.cross(cr, nv)[i], SP.dot(d1, nv), SP.dot(d2, nv)])
            vc.hint("cross(-k c, n) = -k cross(c, n), component %d" % i, SP.cross(qn, nv)[i] == -k * SP.cross(cr, nv)[i])
            vc.have("normal of -polygon is parallel to n, component %d" % i, SP.cross(qn, nv)[i] == 0, using=[SP.cross(qn, nv)[i] == -k * SP.cross(cr, nv)[i], SP.cross(cr, nv)[i] == 0],
                    abstract=[SP.cross(qn, nv)[i], SP.cross(cr, nv)[i]])
    vc.ensure("-polygon is built from the same vertices", len(neg.points) == len(pg.points) and And(*[SP.veq(SP.vec(a), SP.vec(b)) for a, b in zip(neg.points, pg.points)]))
    vc.ensure("-polygon: unit normal, parallel to n", And(SP.eq(SP.norm2(qn), 1), SP.collinear(qn, nv)))
    vc.ensure("-polygon: the normal is reversed", SP.ltz(SP.dot(qn, nv)))
    out = vc.call(lambda: -(pg.plane))
    vc.ensure("-plane: opposite normal, same point", out.returned and And(SP.veq(SP.vec(out.value.n), SP.neg(nv)), SP.veq(SP.vec(out.value.p), SP.vec(pg.plane.p))))


def make_sort_stubs():
    C.remember_originals()

    def plane_in_true(self, other):
        g = C.G()
        if isinstance(other, g.Point):
            S.engine().hit("Plane.__contains__")
            return True  # invariant: the given vertices lie in the plane (checked by the constructor front end)
        return C.ORIG["Plane.__contains__"](self, other)

    return [(C.T_NORMALIZED, C.x_normalized_nonzero), (C.T_LENGTH, C.x_length), (C.T_PLANE_IN, plane_in_true), (C.T_PHASH, C.x_point_hash)]


def groups(tier):
    from props.C01 import coord_stubs
    C.remember_originals()
    cs = coord_stubs() + [(C.T_NORMALIZED, C.x_normalized), (C.T_LENGTH, C.x_length)]
    sort_stubs = make_sort_stubs()
    gs = []
    for n in (3, 4):
        for perm in itertools.permutations(range(n)):
            gs.append(Group("vertex sort[n=%d, input order %s]" % (n, "".join(map(str, perm))), sort_harness(n, perm), [PGM + "_check_and_sort_points"], stubs=sort_stubs,
                            world="FRAME", timeout_s=600, prove_ms=20000, expect_hits=["Vector.__mul__[frame coordinate]"]))
    # n = 5: all 120 input orders in the thorough tier, eight representative ones (identity, reversed, the two pentagram orders, ...) on every change
    perms5 = list(itertools.permutations(range(5))) if tier == "thorough" else [(0, 1, 2, 3, 4), (4, 3, 2, 1, 0), (0, 2, 4, 1, 3), (0, 3, 1, 4, 2), (2, 0, 3, 1, 4), (1, 4, 0, 3, 2), (3, 1, 4, 0, 2), (2, 4, 1, 0, 3)]
    for perm in perms5:
        gs.append(Group("vertex sort[n=5, input order %s]" % "".join(map(str, perm)), sort_harness(5, perm), [PGM + "_check_and_sort_points"], stubs=sort_stubs,
                        world="FRAME", timeout_s=900, prove_ms=30000, expect_hits=["Vector.__mul__[frame coordinate]"]))  # (15 of the 120 orders - all starting with vertex 4 - are not decided within this limit: listed as undecided in the thorough tier)
    gs.append(Group("frame lemma (Binet-Cauchy)", h_frame_lemma, ["spec:in-plane frame coordinates"], world="COORD", timeout_s=300))
    pats = [(0, 1), (0,), (0, 1, 2), (0, 1, 0), (0, 0, 0), (0, 1, 2, 3), (0, 0, 1, 2), (0, 1, 0, 2), (0, 1, 2, 0), (0, 1, 1, 2), (0, 1, 2, 2), (0, 1, 0, 1), (0, 1, 2, 3, 4), (0, 1, 2, 0, 3), (0, 1, 2, 3, 1)]
    for pat in pats:
        for rev in (False, True):
            if rev and len(set(pat)) < 3:
                continue
            gs.append(Group("constructor front end[points %s%s]" % ("".join(map(str, pat)), ", reverse" if rev else ""), front_end_harness(pat, rev), [PGM + "__init__", PGM + "_get_center_point"],
                            stubs=cs, world="COORD", timeout_s=600, prove_ms=30000))
    gs.append(Group("negation of polygon and plane", h_negation, [PGM + "__neg__", "Geometry3D.geometry.plane:Plane.__neg__"], stubs=cs, world="COORD", timeout_s=600, prove_ms=30000))
    gs += polyhedron_groups(tier)
    return gs


def bounded(tier, seed):
    from g3dvc import bounded as B
    n, perms = (10, 24) if tier == "quick" else (40, 120)
    return [("construction from permuted / duplicated vertices, shuffled / re-oriented faces, fed-back results", B.construction, (seed, n, perms), 3000)]


def replay_case(case):
    from g3dvc import bounded as B
    return B.replay_construction(case)


# ---------------------------------------------------------------------------
# ConvexPolyhedron.__init__ on bodies of fixed combinatorial type with symbolic vertices: faces given in the stated order and with the stated
# orientations (bit i = face i is listed clockwise seen from outside ... or not: both are explored, the sign of the volume is symbolic)
# ---------------------------------------------------------------------------

def _face(vc, g, verts, name):
    """a valid ConvexPolygon on the given vertex cycle: plane through the first vertex with the unit normal about which the cycle is counter-clockwise"""
    pg = g.ConvexPolygon.__new__(g.ConvexPolygon)
    pg.points = tuple(g.Point(*v) for v in verts)
    w = SP.cross(SP.sub(verts[1], verts[0]), SP.sub(verts[2], verts[0]))
    k = vc.real(name + ".k")
    vc.assume(And(k > 0, SP.eq(k * k * SP.norm2(w), 1)), "invariant: unit normal, cycle counter-clockwise about it")
    pl = g.Plane.__new__(g.Plane)
    pl.p = g.Point(*verts[0])
    pl.n = g.Vector(*SP.scale(k, w))
    pg.plane = pl
    m = len(verts)
    pg.center_point = g.Point(*[sum(v[c] for v in verts) / m for c in range(3)])
    return pg


def x_polygon_neg(self):
    """contract of ConvexPolygon.__neg__ (proved above for the plane, bounded for the re-sorted cycle): same vertices in reversed order, opposite normal"""
    from g3dvc import sym as S
    g = C.G()
    vc = S.engine()
    vc.hit("ConvexPolygon.__neg__")
    pg = g.ConvexPolygon.__new__(g.ConvexPolygon)
    pg.points = tuple(g.Point(*SP.vec(p)) for p in reversed(self.points))
    pl = g.Plane.__new__(g.Plane)
    pl.p = g.Point(*SP.vec(self.plane.p))
    pl.n = g.Vector(*SP.neg(SP.vec(self.plane.n)))
    pg.plane = pl
    pg.center_point = g.Point(*SP.vec(self.center_point))
    return pg


BODIES = {
    # name: (number of free vertices, function building the vertex list from base points / vectors, faces as index cycles)
    "tetrahedron": dict(nv=4, faces=[(0, 1, 2), (0, 1, 3), (0, 2, 3), (1, 2, 3)], V=4, E=6),
    "triangular prism": dict(nv=6, faces=[(0, 1, 2), (3, 4, 5), (0, 1, 4, 3), (1, 2, 5, 4), (2, 0, 3, 5)], V=6, E=9),
    "parallelepiped": dict(nv=8, faces=[(0, 1, 3, 2), (4, 5, 7, 6), (0, 1, 5, 4), (2, 3, 7, 6), (0, 2, 6, 4), (1, 3, 7, 5)], V=8, E=12),
}


def polyhedron_ctor_harness(body, bits, order):
    spec = BODIES[body]

    def h(vc):
        g = C.G()
        if not vc.symbolic:
            return _polyhedron_concrete(vc, body, bits, order)
        b = C.witness(vc, "b")
        e1, e2, e3 = C.witness(vc, "e1"), C.witness(vc, "e2"), C.witness(vc, "e3")
        det = SP.det3(e1, e2, e3)
        vc.assume(Not(SP.eqz(det)), "the body is not flat (edge vectors independent)")
        if body == "tetrahedron":
            verts = [b, SP.add(b, e1), SP.add(b, e2), SP.add(b, e3)]
        elif body == "triangular prism":
            verts = [b, SP.add(b, e1), SP.add(b, e2), SP.add(b, e3), SP.add(SP.add(b, e1), e3), SP.add(SP.add(b, e2), e3)]
        else:
            verts = [SP.add(SP.add(SP.add(b, SP.scale(i, e1)), SP.scale(j, e2)), SP.scale(k_, e3)) for k_ in (0, 1) for j in (0, 1) for i in (0, 1)]
        faces = []
        for fi, cyc in enumerate(spec["faces"]):
            cyc = list(cyc)
            if bits[fi]:
                cyc = cyc[::-1]
            faces.append(_face(vc, g, [verts[i] for i in cyc], "f%d" % fi))
        faces = [faces[i] for i in order]
        c = [sum(v[k_] for v in verts) / len(verts) for k_ in range(3)]
        # admission: the centre is off every face plane by the margin of the flip test
        for f in faces:
            q = SP.dot(SP.sub(SP.vec(f.plane.p), c), SP.vec(f.plane.n))
            vc.admit(Or(q >= C.ADM * C.EPS0, q <= -C.ADM * C.EPS0), "centre off every face plane by >= 4 eps")
        before = [vc.snapshot(f) for f in faces]
        out = vc.call(g.ConvexPolyhedron, tuple(faces))
        vc.ensure("ConvexPolyhedron(%s, faces in the order %s, orientations %s) does not raise" % (body, list(order), list(bits)), out.returned)
        if not out.returned:
            vc.note(repr(out.value))
            return
        ph = out.value
        vc.ensure("vertex, edge and face counts are those of the body (V - E + F = 2)", (len(ph.point_set), len(ph.segment_set), len(ph.convex_polygons)) == (spec["V"], spec["E"], len(spec["faces"])))
        vc.ensure("centre is the mean of the vertices", SP.veq(SP.vec(ph.center_point), c))
        vc.ensure("every face normal points away from the interior (centre strictly behind every face)",
                  And(*[SP.gtz(SP.dot(SP.sub(SP.vec(f.plane.p), SP.vec(ph.center_point)), SP.vec(f.plane.n))) for f in ph.convex_polygons]))
        vc.ensure("every stored face is one of the given faces (same vertex set)", all(any(sorted(SP.vec(p)[0].t.get_id() if hasattr(SP.vec(p)[0], "t") else 0 for p in f.points) ==
                                                                                         sorted(SP.vec(p)[0].t.get_id() if hasattr(SP.vec(p)[0], "t") else 0 for p in g_.points) for g_ in faces) for f in ph.convex_polygons))
        vc.ensure("one pyramid per face", len(ph.pyramid_set) == len(spec["faces"]))
        vc.ensure("frame: the given faces are unchanged (the polyhedron owns copies)", [vc.snapshot(f) for f in faces] == before)
        from g3dvc.engine import mutable_ids
        vc.ensure("ownership: the polyhedron shares no mutable object with the given faces", not (mutable_ids(ph) & set().union(*[mutable_ids(f) for f in faces])))

    return h


def _polyhedron_concrete(vc, body, bits, order):
    g = C.G()
    spec = BODIES[body]
    b, e1, e2, e3 = (1, -2, 3), (3, 1, 0), (-1, 4, 1), (1, 1, 5)
    add = lambda *vs: tuple(sum(x) for x in zip(*vs))
    sc = lambda k, v: tuple(k * x for x in v)
    if body == "tetrahedron":
        verts = [b, add(b, e1), add(b, e2), add(b, e3)]
    elif body == "triangular prism":
        verts = [b, add(b, e1), add(b, e2), add(b, e3), add(b, e1, e3), add(b, e2, e3)]
    else:
        verts = [add(b, sc(i, e1), sc(j, e2), sc(k_, e3)) for k_ in (0, 1) for j in (0, 1) for i in (0, 1)]
    faces = []
    for fi, cyc in enumerate(spec["faces"]):
        cyc = list(cyc)[::-1] if bits[fi] else list(cyc)
        faces.append(g.ConvexPolygon(tuple(g.Point(*verts[i]) for i in cyc)))
    faces = [faces[i] for i in order]
    out = vc.call(g.ConvexPolyhedron, tuple(faces))
    vc.ensure("ConvexPolyhedron does not raise", out.returned)
    if out.returned:
        ph = out.value
        vc.ensure("counts", (len(ph.point_set), len(ph.segment_set), len(ph.convex_polygons)) == (spec["V"], spec["E"], len(spec["faces"])))
        c = ph.center_point
        vc.ensure("every face normal points away from the interior", all(sum(f.plane.n[k] * (f.plane.p[k] - c[k]) for k in range(3)) > 0 for f in ph.convex_polygons))


def polyhedron_groups(tier):
    import random
    from props.C01 import coord_stubs
    C.remember_originals()
    cs = coord_stubs() + [(C.T_LENGTH, C.x_length), (C.T_NORMALIZED, C.x_normalized), ("Geometry3D.geometry.polygon:ConvexPolygon.__neg__", x_polygon_neg)]
    gs = []
    rng = random.Random(9)
    for body, spec in BODIES.items():
        F_ = len(spec["faces"])
        all_bits = list(itertools.product((0, 1), repeat=F_))
        if tier == "thorough":
            chosen = all_bits if body == "tetrahedron" else [all_bits[0], all_bits[-1]] + rng.sample(all_bits[1:-1], 4)
        elif body == "tetrahedron":
            chosen = [all_bits[0], all_bits[-1], all_bits[5], all_bits[9]]
        else:
            chosen = []
        for bits in chosen:
            order = list(range(F_))
            rng.shuffle(order)
            gs.append(Group("ConvexPolyhedron.__init__[%s, orientations %s, face order %s]" % (body, "".join(map(str, bits)), "".join(map(str, order))),
                            polyhedron_ctor_harness(body, bits, tuple(order)), ["Geometry3D.geometry.polyhedron:ConvexPolyhedron.__init__", "Geometry3D.geometry.polyhedron:ConvexPolyhedron._check_normal",
                            "Geometry3D.geometry.polyhedron:ConvexPolyhedron._euler_check", "Geometry3D.geometry.polyhedron:ConvexPolyhedron._get_center_point", "Geometry3D.geometry.pyramid:Pyramid.__init__"],
                            stubs=cs, world="COORD", timeout_s=1800, prove_ms=30000))
    return gs
