"""C14 - shape builders produce the specified inscribed shapes for every pose."""
import math
from fractions import Fraction

from g3dvc.runner import Group
from g3dvc.sym import Sym, SymBool, F, And, Or, Not, Implies, Iff
from g3dvc import spec as SP
from contracts import common as C

PROPERTY = "C14"
LEVEL = "other"
ASSUMES = ["A1", "A2", "A3", "A4", "A5", "A6"]
MANIFEST = dict(
    text=("Mixed. PROVED for all centres, radii and normals (symbolic reals), per resolution n (3..12 quick, 3..24 thorough): get_circle_point_list returns n points, each in the plane through the centre orthogonal to the normal, each at distance r "
          "(relative 1e-9: the code's cos / sin values are doubles), consecutive points one chord 2 r sin(pi/n) apart and all turning the same way about the normal (equal angular steps), never raising for any non-zero normal - including normals along or "
          "opposite to a coordinate axis - and leaving its arguments unchanged; n <= 2 raises. Parallelogram hands exactly the four corners b, b+v1, b+v2, b+v1+v2 to the polygon constructor and Parallelepiped exactly the six faces whose corners are the eight "
          "points b + {0,1}v1 + {0,1}v2 + {0,1}v3 (each vertex in three faces), arguments unchanged. The offsets of the circle points from the centre depend on (normal, radius, n) only (for every n used below); against that contract Cylinder hands the polyhedron constructor exactly the circle about c + h, the circle about c and the n parallelograms top_i, top_i+1, bottom_i+1, bottom_i with top_k = bottom_k + h, and Cone the base circle and the n triangles apex, base_i, base_i+1 (n = 3, 4, 6, 10; thorough 3..12, 24), sharing no Point with the arguments. BOUNDED (labelled): vertex / edge / face counts, closedness, vertices on the specified circle / cylinder / cone / sphere, area and volume closed forms "
          "(relative 1e-9) of Circle, Cylinder, Cone, Sphere and Parallelepiped over centres, radii, the 26 lattice directions plus near-axis directions, n = 3..24, n1 = 3..12, n2 = 2..5 - these go through both constructors."),
    note="A3: acos only through its bracketed comparisons with SMALL_ANGLE and pi - SMALL_ANGLE; cos / sin of the concrete step angles are the doubles the code computes. A1, A5. Shape bound: n as stated.",
    technique="contract-based deductive verification of the point generators (z3, ghost scalars) + labelled bounded stand-in with closed-form references for the assembled bodies",
    design_ref="DESIGN.md section 9 (C14)",
)
EXPLANATION = "proved: circle points for every pose per n, corner points handed to the constructors; bounded: assembled shapes against closed forms"
BOUNDED_ONLY = ["Geometry3D.geometry.polyhedron:ConvexPolyhedron.Sphere", "Geometry3D.geometry.polyhedron:ConvexPolyhedron.Cylinder", "Geometry3D.geometry.polyhedron:ConvexPolyhedron.Cone",
                "Geometry3D.geometry.polygon:ConvexPolygon.Circle (assembled polygon)"]


def circle_harness(n):
    def h(vc):
        g = C.G()
        c = C.P(vc, "c")
        nrm = C.V(vc, "n")
        r = vc.real("r")
        cv, nv = SP.vec(c), SP.vec(nrm)
        vc.assume(SP.vnonzero(nv), "normal != 0")
        vc.assume(SP.gtz(r), "radius > 0")
        if vc.symbolic:
            # Cauchy-Schwarz / Lagrange instances for the two acos arguments (normal vs x and y axes)
            for ax in ((1, 0, 0), (0, 1, 0)):
                cr = SP.cross(nv, ax)
                vc.hint("Lagrange", SP.norm2(nv) * 1 - SP.dot(nv, ax) * SP.dot(nv, ax) == SP.norm2(cr))
        out = vc.call(g.get_circle_point_list, c, nrm, r, n)
        vc.ensure("get_circle_point_list(n=%d) does not raise for any non-zero normal" % n, out.returned)
        if not out.returned:
            vc.note(repr(out.value))
            return
        pts = out.value
        ok = isinstance(pts, list) and len(pts) == n and all(isinstance(p, g.Point) for p in pts)
        vc.ensure("returns %d Points" % n, ok)
        if not ok:
            return
        P_ = [SP.sub(SP.vec(p), cv) for p in pts]
        r2 = r * r
        tol = r2 * Fraction(1, 10 ** 9)
        chord2 = Fraction(2 - 2 * math.cos(2 * math.pi / n))  # (2 sin(pi/n))^2 as the double the closed form gives
        ghosts = []
        if vc.symbolic:
            logs = vc.log.get("normalized", [])
            # frame facts: v1, v2 unit, orthogonal to each other and to the normal (proved once from the contracts of normalized / cross)
            kn = logs[0][0] if logs else None
        vc.ensure("every point lies in the plane through the centre orthogonal to the normal", And(*[SP.eqz(SP.dot(p, nv)) for p in P_]))
        vc.ensure("every point is at distance r from the centre (relative 1e-9)", And(*[And(SP.gez(SP.norm2(p) - r2 + tol), SP.gez(r2 + tol - SP.norm2(p))) for p in P_]))
        vc.ensure("consecutive points are one chord 2 r sin(pi/n) apart (equal angular steps, relative 1e-9)",
                  And(*[And(SP.gez(SP.norm2(SP.sub(P_[(i + 1) % n], P_[i])) - chord2 * r2 + 4 * tol), SP.gez(chord2 * r2 + 4 * tol - SP.norm2(SP.sub(P_[(i + 1) % n], P_[i])))) for i in range(n)]))
        turn = [SP.dot(SP.cross(P_[i], P_[(i + 1) % n]), nv) for i in range(n)]
        vc.ensure("all steps turn the same way about the normal", Or(And(*[SP.gtz(t) for t in turn]), And(*[SP.ltz(t) for t in turn])))

    return h


def _native_same_points(points, expected, tol=1e-9):
    """concrete mode (replay / random search run the real, un-stubbed constructors): the same finite point set"""
    pts = [tuple(float(x) for x in SP.vec(p)) for p in points]
    exp = [tuple(float(x) for x in e) for e in expected]
    near = lambda a, b: all(abs(x - y) <= tol * max(1.0, abs(x), abs(y)) for x, y in zip(a, b))
    return len(pts) == len(exp) and all(any(near(a, b) for b in exp) for a in pts) and all(any(near(a, b) for a in pts) for b in exp)


def h_parallelogram(vc):
    import importlib
    g = C.G()
    b = C.P(vc, "b")
    v1, v2 = C.V(vc, "v1"), C.V(vc, "v2")
    bv, a1, a2 = SP.vec(b), SP.vec(v1), SP.vec(v2)
    vc.assume(Not(SP.collinear(a1, a2)), "edge vectors not parallel")
    out = vc.call(g.Parallelogram, b, v1, v2)
    vc.ensure("Parallelogram(independent vectors) does not raise", out.returned)
    if not out.returned:
        vc.note(repr(out.value))
        return
    if not vc.symbolic:
        vc.ensure("corners are b, b+v1, b+v2, b+v1+v2", _native_same_points(out.value.points, [bv, SP.add(bv, a1), SP.add(bv, a2), SP.add(SP.add(bv, a1), a2)]))
        return
    pts = getattr(out.value, "_ctor_points", None)
    ok = pts is not None and len(pts) == 4
    vc.ensure("the constructor receives four points", ok)
    if ok:
        exp = [bv, SP.add(bv, a1), SP.add(bv, a2), SP.add(SP.add(bv, a1), a2)]
        vc.ensure("corners are b, b+v1, b+v2, b+v1+v2", And(*[SP.veq(SP.vec(p), e) for p, e in zip(pts, exp)]))


def h_parallelepiped(vc):
    g = C.G()
    b = C.P(vc, "b")
    v1, v2, v3 = C.V(vc, "v1"), C.V(vc, "v2"), C.V(vc, "v3")
    bv, a1, a2, a3 = SP.vec(b), SP.vec(v1), SP.vec(v2), SP.vec(v3)
    for x, y in ((a1, a2), (a1, a3), (a2, a3)):
        vc.assume(Not(SP.collinear(x, y)), "edge vectors pairwise not parallel")
    vc.assume(Not(SP.eqz(SP.det3(a1, a2, a3))), "edge vectors independent (a flat body is rejected: C15)")
    out = vc.call(g.Parallelepiped, b, v1, v2, v3)
    vc.ensure("Parallelepiped(independent vectors) does not raise", out.returned)
    if not out.returned:
        vc.note(repr(out.value))
        return
    if not vc.symbolic:
        vc.ensure("the eight corners are b + i v1 + j v2 + k v3", _native_same_points(out.value.point_set, [SP.add(SP.add(SP.add(bv, SP.scale(i, a1)), SP.scale(j, a2)), SP.scale(k, a3)) for i in (0, 1) for j in (0, 1) for k in (0, 1)])
                  and len(out.value.convex_polygons) == 6)
        return
    faces = getattr(out.value, "_ctor_faces", None)
    ok = faces is not None and len(faces) == 6 and all(getattr(f, "_ctor_points", None) is not None and len(f._ctor_points) == 4 for f in faces)
    vc.ensure("the constructor receives six four-cornered faces", ok)
    if not ok:
        return
    corner = lambda i, j, k: SP.add(SP.add(SP.add(bv, SP.scale(i, a1)), SP.scale(j, a2)), SP.scale(k, a3))
    expected_faces = [[corner(0, 0, 0), corner(1, 0, 0), corner(0, 1, 0), corner(1, 1, 0)], [corner(0, 0, 0), corner(0, 1, 0), corner(0, 0, 1), corner(0, 1, 1)],
                      [corner(0, 0, 0), corner(1, 0, 0), corner(0, 0, 1), corner(1, 0, 1)], [corner(1, 1, 1), corner(0, 1, 1), corner(1, 0, 1), corner(0, 0, 1)],
                      [corner(1, 1, 1), corner(1, 0, 1), corner(1, 1, 0), corner(1, 0, 0)], [corner(1, 1, 1), corner(0, 1, 1), corner(1, 1, 0), corner(0, 1, 0)]]
    for fi, (f, exp) in enumerate(zip(faces, expected_faces)):
        vc.ensure("face %d has the expected four corners" % fi, And(*[SP.veq(SP.vec(p), e) for p, e in zip(f._ctor_points, exp)]))


def circle_translation_harness(n):
    """the offsets of the circle points from the centre depend on (normal, radius, n) only: moving the centre moves every point along"""
    def h(vc):
        g = C.G()
        c = C.P(vc, "c")
        t = C.V(vc, "t")
        nrm = C.V(vc, "n")
        r = vc.real("r")
        vc.assume(SP.vnonzero(SP.vec(nrm)), "normal != 0")
        vc.assume(SP.gtz(r), "radius > 0")
        c2 = g.Point(*SP.add(SP.vec(c), SP.vec(t)))
        o1 = vc.call(g.get_circle_point_list, c, nrm, r, n)
        o2 = vc.call(g.get_circle_point_list, c2, nrm, r, n)
        vc.ensure("both calls return", o1.returned and o2.returned)
        if not (o1.returned and o2.returned):
            return
        ok = len(o1.value) == n and len(o2.value) == n
        vc.ensure("both calls return n points", ok)
        if ok:
            vc.ensure("point i about the moved centre = point i about the centre + the displacement", And(*[SP.veq(SP.vec(q), SP.add(SP.vec(p), SP.vec(t))) for p, q in zip(o1.value, o2.value)]))
            vc.ensure("the lists share no Point object", not (set(map(id, o1.value)) & set(map(id, o2.value))) and len(set(map(id, o1.value))) == n)

    return h


def x_circle_points(center, normal, radius, n=10):
    """contract of get_circle_point_list as used by Cylinder / Cone (proved above): n >= 3, normal != 0; n new Points center + u_i where the offsets u_i depend on
    (normal, radius, n) only and are orthogonal to the normal"""
    from g3dvc import sym as S
    g = C.G()
    vc = S.engine()
    vc.hit("get_circle_point_list")
    vc.oblige("get_circle_point_list is called with n >= 3", n >= 3)
    vc.oblige("get_circle_point_list is called with a non-zero normal", SP.vnonzero(SP.vec(normal)))
    key = ("circle", n, S.term(Sym(radius)).get_id()) + tuple(S.term(x).get_id() for x in SP.vec(normal))
    offs = vc.sqrt_cache.get(key)
    if offs is None:
        offs = [tuple(vc.fresh("u%d" % i) for _ in range(3)) for i in range(n)]
        for u in offs:
            vc.assume(SP.eqz(SP.dot(u, SP.vec(normal))), "get_circle_point_list contract: offsets orthogonal to the normal")
        vc.sqrt_cache[key] = offs
    vc.record("circle", (SP.vec(center), offs))
    return [g.Point(*SP.add(SP.vec(center), u)) for u in offs]


def cylinder_cone_harness(kind, n):
    def h(vc):
        g = C.G()
        c = C.P(vc, "c")
        hv = C.V(vc, "h")
        r = vc.real("r")
        cv, hh = SP.vec(c), SP.vec(hv)
        vc.assume(SP.vnonzero(hh), "height vector != 0")
        vc.assume(SP.gtz(r), "radius > 0")
        out = vc.call(g.Cylinder if kind == "Cylinder" else g.Cone, c, r, hv, n)
        vc.ensure("%s(n=%d) does not raise" % (kind, n), out.returned)
        if not out.returned:
            vc.note(repr(out.value))
            return
        nf = n + 2 if kind == "Cylinder" else n + 1
        if not vc.symbolic:
            base = [SP.vec(p) for p in g.get_circle_point_list(c, hv, r, n)]
            exp = base + ([SP.add(p, hh) for p in base] if kind == "Cylinder" else [SP.add(cv, hh)])
            vc.ensure("%s: %d faces over the circle points about c%s" % (kind, nf, " and about c + h" if kind == "Cylinder" else " and the apex c + h"),
                      len(out.value.convex_polygons) == nf and _native_same_points(out.value.point_set, exp, 1e-7))
            return
        faces = getattr(out.value, "_ctor_faces", None)
        ok = faces is not None and len(faces) == nf and all(getattr(f, "_ctor_points", None) is not None for f in faces)
        vc.ensure("the polyhedron constructor receives %d faces" % nf, ok)
        if not ok:
            return
        recs = vc.log.get("circle", [])
        offs = recs[0][1] if recs else None
        vc.ensure("all circle point lists use the same offsets (same normal, radius, n)", bool(recs) and all(rc[1] is offs for rc in recs))
        if not recs:
            return
        bottom = [SP.add(cv, u) for u in offs]
        top = [SP.add(SP.add(cv, hh), u) for u in offs]
        apex = SP.add(cv, hh)
        eqpts = lambda f, exp: len(f._ctor_points) == len(exp) and And(*[SP.veq(SP.vec(p), e) for p, e in zip(f._ctor_points, exp)])
        if kind == "Cylinder":
            vc.ensure("face 0 is the circle about the top centre c + h", eqpts(faces[0], top))
            vc.ensure("face 1 is the circle about the bottom centre c", eqpts(faces[1], bottom))
            for i in range(n):
                j = (i + 1) % n
                vc.ensure("side face %d joins top_i, top_i+1, bottom_i+1, bottom_i, where top_k = bottom_k + h (a parallelogram)" % i, eqpts(faces[2 + i], [top[i], top[j], bottom[j], bottom[i]]))
        else:
            vc.ensure("face 0 is the base circle about c", eqpts(faces[0], bottom))
            for i in range(n):
                j = (i + 1) % n
                vc.ensure("side face %d joins the apex c + h with base points i and i+1" % i, eqpts(faces[1 + i], [apex, bottom[i], bottom[j]]))
        pts_all = [p for f in faces for p in f._ctor_points]
        from g3dvc.engine import mutable_ids
        vc.ensure("no face shares a Point object with the arguments", not (set(map(id, pts_all)) & {id(c)}) and not (mutable_ids(hv) & set().union(*[mutable_ids(p) for p in pts_all])))

    return h


def _ctor_setup(rb):
    """constructor contracts as recording stubs: the builders are verified for the points they hand on"""
    import importlib
    PG = importlib.import_module("Geometry3D.geometry.polygon")
    PH = importlib.import_module("Geometry3D.geometry.polyhedron")

    def pg_init(self, pts, reverse=False, check_convex=False):
        self._ctor_points = tuple(pts)

    def ph_init(self, faces):
        self._ctor_faces = tuple(faces)

    rb.rebind("Geometry3D.geometry.polygon:ConvexPolygon.__init__", pg_init)
    rb.rebind("Geometry3D.geometry.polyhedron:ConvexPolyhedron.__init__", ph_init)


def groups(tier):
    stubs = [(C.T_NORMALIZED, C.x_normalized), (C.T_LENGTH, C.x_length)]
    ns = list(range(3, 13)) if tier == "quick" else list(range(3, 25))
    gs = []
    for n in ns:
        gs.append(Group("get_circle_point_list[n=%d, all centres / radii / normals]" % n, circle_harness(n), ["Geometry3D.geometry.polygon:get_circle_point_list"], stubs=stubs,
                        world="COORD", timeout_s=1200, prove_ms=40000))
    ex = [(C.T_PAR, C.x_parallel), (C.T_VEQ, C.x_vector_eq), (C.T_LENGTH, C.x_length)]
    for n in ((3, 4, 5, 6, 10) if tier == "quick" else list(range(3, 13)) + [24]):  # (every n for which the Cylinder / Cone groups below use this clause)
        gs.append(Group("get_circle_point_list[n=%d, offsets independent of the centre]" % n, circle_translation_harness(n), ["Geometry3D.geometry.polygon:get_circle_point_list"], stubs=stubs,
                        world="COORD", timeout_s=600, prove_ms=30000))
    cstubs = [("Geometry3D.geometry.polygon:get_circle_point_list", x_circle_points)]
    for n in ((3, 4, 6, 10) if tier == "quick" else list(range(3, 13)) + [24]):
        for kind in ("Cylinder", "Cone"):
            gs.append(Group("%s[n=%d, faces handed to the constructor]" % (kind, n), cylinder_cone_harness(kind, n), ["Geometry3D.geometry.polyhedron:ConvexPolyhedron." + kind, "Geometry3D.geometry.polygon:ConvexPolygon.Circle"],
                            stubs=cstubs, world="COORD", timeout_s=300, setup=_ctor_setup, expect_hits=["get_circle_point_list"]))
    gs.append(Group("Parallelogram[corner points]", h_parallelogram, ["Geometry3D.geometry.polygon:ConvexPolygon.Parallelogram"], stubs=ex, world="COORD", timeout_s=300, setup=_ctor_setup))
    gs.append(Group("Parallelepiped[faces and corner points]", h_parallelepiped, ["Geometry3D.geometry.polyhedron:ConvexPolyhedron.Parallelepiped"], stubs=ex, world="COORD", timeout_s=300, setup=_ctor_setup))
    return gs


# ---------------------------------------------------------------------------
# bounded stand-in: the assembled shapes against closed forms
# ---------------------------------------------------------------------------

def _poly_volume(faces):
    """volume of a closed polyhedron from its (float) faces, by signed tetrahedra about the vertex mean (independent of the library)"""
    pts = [p for f in faces for p in f]
    c = [sum(p[k] for p in pts) / len(pts) for k in range(3)]
    vol = 0.0
    for f in faces:
        q = [[p[k] - c[k] for k in range(3)] for p in f]
        for i in range(1, len(q) - 1):
            a, b, d = q[0], q[i], q[i + 1]
            vol += abs(a[0] * (b[1] * d[2] - b[2] * d[1]) - a[1] * (b[0] * d[2] - b[2] * d[0]) + a[2] * (b[0] * d[1] - b[1] * d[0])) / 6.0
    return vol


def _poly_area(faces):
    tot = 0.0
    for f in faces:
        for i in range(1, len(f) - 1):
            u = [f[i][k] - f[0][k] for k in range(3)]
            w = [f[i + 1][k] - f[0][k] for k in range(3)]
            cr = (u[1] * w[2] - u[2] * w[1], u[2] * w[0] - u[0] * w[2], u[0] * w[1] - u[1] * w[0])
            tot += math.sqrt(sum(x * x for x in cr)) / 2.0
    return tot


def bounded_builders(seed, dense):
    import itertools
    import random
    from g3dvc.engine import load_repo, snapshot
    g = load_repo()
    P, V = g.Point, g.Vector
    rng = random.Random(seed + 14)
    ev = 0
    classes = set()
    failures = []
    samples = []

    def fail(klass, what, case):
        if len(failures) < 8 and klass not in [f["class"] for f in failures]:
            failures.append({"class": klass, "what": what, "case": case})

    def close(x, y, rel=1e-9):
        return abs(x - y) <= rel * max(1.0, abs(y))

    dirs = [d for d in itertools.product((-1, 0, 1), repeat=3) if any(d)]
    dirs += [(1, 0.01, 0), (-1, 0.002, 0.001), (0.003, 1, 0), (0, -1, 0.004), (2, 3, 6), (-3, 1, 2), (0.05, 0.02, -1)]
    ns = list(range(3, 25)) if dense else [3, 4, 5, 6, 7, 10, 12, 17, 24]
    for d in dirs:
        for n in (ns if dense else rng.sample(ns, 4)):
            c = P(rng.randint(-8, 8), rng.randint(-8, 8), rng.randint(-8, 8))
            r = rng.choice((0.3, 0.5, 1, 2.5, 7.75))
            k = rng.choice((0.5, 1, 2, 3))
            hv = V(*[k * x for x in d])
            hlen = math.sqrt(sum((k * x) ** 2 for x in d))
            base_area = n / 2.0 * r * r * math.sin(2 * math.pi / n)
            chord = 2 * r * math.sin(math.pi / n)
            before = [snapshot(c), snapshot(hv)]
            case = dict(centre=[c.x, c.y, c.z], direction=list(d), scale=k, radius=r, n=n)
            dclass = "axis" if sum(1 for x in d if x) == 1 and all(abs(x) in (0, 1) for x in d) else ("near-axis" if any(0 < abs(x) < 0.1 for x in d) else "oblique")
            for name, mk, exp in (
                ("Circle", lambda: g.Circle(c, hv, r, n), dict(V=n, area=base_area)),
                ("Cylinder", lambda: g.Cylinder(c, r, hv, n), dict(V=2 * n, E=3 * n, F=n + 2, volume=base_area * hlen, area=2 * base_area + n * chord * hlen)),
                ("Cone", lambda: g.Cone(c, r, hv, n), dict(V=n + 1, E=2 * n, F=n + 1, volume=base_area * hlen / 3.0,
                                                          area=base_area + n * 0.5 * chord * math.sqrt(hlen ** 2 + (r * math.cos(math.pi / n)) ** 2))),
            ):
                klass = "%s:%s" % (name, dclass)
                ev += 1
                classes.add(klass)
                try:
                    o = mk()
                except Exception as e:
                    fail(klass, "%s raised %r" % (name, e), case)
                    continue
                if [snapshot(c), snapshot(hv)] != before:
                    fail(klass, "%s modified its arguments" % name, case)
                if name == "Circle":
                    ok = len(o.points) == n and close(o.area(), exp["area"]) and all(close(p.distance(c), r) for p in o.points) and all(abs(sum((p[i] - c[i]) * hv[i] for i in range(3))) <= 1e-9 * hlen * r for p in o.points)
                    if not ok:
                        fail(klass, "Circle: %d vertices, area %r (expected %d, %r)" % (len(o.points), o.area(), n, exp["area"]), case)
                else:
                    got = dict(V=len(o.point_set), E=len(o.segment_set), F=len(o.convex_polygons), volume=o.volume(), area=o.area())
                    bad = [kk for kk in exp if not (got[kk] == exp[kk] if kk in "VEF" else close(got[kk], exp[kk]))]
                    if not close(g.volume(o), exp["volume"]):
                        bad.append("volume(x) = %r" % g.volume(o))
                    # every vertex on the cylinder / cone surface: distance from the axis
                    axis = [x / hlen for x in hv]
                    for p in o.point_set:
                        w = [p[i] - c[i] for i in range(3)]
                        t = sum(w[i] * axis[i] for i in range(3))
                        rad = math.sqrt(sum((w[i] - t * axis[i]) ** 2 for i in range(3)))
                        exp_rad = r if name == "Cylinder" else r * (1 - t / hlen)
                        if not (abs(rad - exp_rad) <= 1e-9 * max(1.0, r) and -1e-9 <= t <= hlen + 1e-9):
                            bad.append("vertex off the surface")
                            break
                    if bad:
                        fail(klass, "%s: %s differ: got %r expected %r" % (name, bad, got, exp), case)
                    elif len(samples) < 2:
                        samples.append(dict(shape=name, case=case, got=got))
    # spheres
    for n1, n2 in itertools.product(range(3, 13) if dense else (3, 4, 6, 10, 12), (2, 3, 4, 5)):
        c = P(rng.randint(-8, 8), rng.randint(-8, 8), rng.randint(-8, 8))
        r = rng.choice((0.3, 1, 2.5, 7.75))
        klass = "Sphere:n2=%d" % n2
        ev += 1
        classes.add(klass)
        case = dict(centre=[c.x, c.y, c.z], radius=r, n1=n1, n2=n2)
        try:
            o = g.Sphere(c, r, n1, n2)
        except Exception as e:
            fail(klass, "Sphere raised %r" % (e,), case)
            continue
        Vn, Fn = 2 + n1 * (2 * n2 - 1), 2 * n1 * n2
        faces = [[(p.x, p.y, p.z) for p in f.points] for f in o.convex_polygons]
        ok = len(o.point_set) == Vn and len(o.convex_polygons) == Fn and len(o.point_set) - len(o.segment_set) + Fn == 2
        ok = ok and all(close(p.distance(c), r) for p in o.point_set)
        # rings at equal latitude steps of a quarter circle divided by n2
        lats = sorted(set(round(math.asin(max(-1.0, min(1.0, (p.z - c.z) / r))) / (math.pi / 2 / n2), 6) for p in o.point_set))
        ok = ok and lats == [float(x) for x in range(-n2, n2 + 1)]
        ok = ok and close(o.volume(), _poly_volume(faces), 1e-9) and close(o.area(), _poly_area(faces), 1e-9) and close(g.volume(o), _poly_volume(faces), 1e-9)
        if not ok:
            fail(klass, "Sphere(n1=%d, n2=%d): V %d (exp %d) F %d (exp %d) volume %r (ref %r) area %r (ref %r) latitudes %r" % (n1, n2, len(o.point_set), Vn, len(o.convex_polygons), Fn, o.volume(), _poly_volume(faces), o.area(), _poly_area(faces), lats), case)
    # parallelepipeds over independent lattice triples
    vs = [v for v in itertools.product((-2, -1, 0, 1, 2, 3), repeat=3) if any(v)]
    # corners that differ only by -1 / -2 in one coordinate (CPython: hash(-1) == hash(-2), so such Points have equal hashes and are told apart by == alone)
    fixed = [((-2, 1, 0), (1, 0, 0), (0, -1, 2), (0, 1, 1)), ((-2, -2, -2), (1, 0, 0), (0, 1, 0), (0, 0, 1)), ((1, -2, 0), (0, 1, 0), (2, 0, 1), (0, 0, -1)), ((-1, -1, 1), (-1, 0, 0), (0, -1, 0), (1, 1, 1))]
    for it in range((400 if dense else 60) + len(fixed)):
        if it < len(fixed):
            bs, a, b, d = fixed[it]
        else:
            bs = None
            a, b, d = rng.sample(vs, 3)
        det = a[0] * (b[1] * d[2] - b[2] * d[1]) - a[1] * (b[0] * d[2] - b[2] * d[0]) + a[2] * (b[0] * d[1] - b[1] * d[0])
        if det == 0:
            continue
        base = P(*bs) if bs else P(rng.randint(-8, 8), rng.randint(-8, 8), rng.randint(-8, 8))
        va, vb, vd = V(*a), V(*b), V(*d)
        before = [snapshot(x) for x in (base, va, vb, vd)]
        klass = "Parallelepiped"
        ev += 1
        classes.add(klass)
        case = dict(base=[base.x, base.y, base.z], v1=a, v2=b, v3=d)
        try:
            o = g.Parallelepiped(base, va, vb, vd)
        except Exception as e:
            fail(klass, "Parallelepiped raised %r" % (e,), case)
            continue
        cr = lambda u, w: (u[1] * w[2] - u[2] * w[1], u[2] * w[0] - u[0] * w[2], u[0] * w[1] - u[1] * w[0])
        nrm = lambda u: math.sqrt(sum(x * x for x in u))
        exp_area = 2 * (nrm(cr(a, b)) + nrm(cr(a, d)) + nrm(cr(b, d)))
        ok = len(o.point_set) == 8 and len(o.segment_set) == 12 and len(o.convex_polygons) == 6 and close(o.volume(), abs(det)) and close(o.area(), exp_area) and close(g.volume(o), abs(det))
        if not ok or [snapshot(x) for x in (base, va, vb, vd)] != before:
            fail(klass, "Parallelepiped: V %d E %d F %d volume %r (|det| %r) area %r (%r), arguments unchanged: %s" % (len(o.point_set), len(o.segment_set), len(o.convex_polygons), o.volume(), abs(det), o.area(), exp_area,
                        [snapshot(x) for x in (base, va, vb, vd)] == before), case)
        pg = g.Parallelogram(base, va, vb)
        ev += 1
        classes.add("Parallelogram")
        if not (len(pg.points) == 4 and close(pg.area(), nrm(cr(a, b)))):
            fail("Parallelogram", "Parallelogram: %d vertices, area %r (expected %r)" % (len(pg.points), pg.area(), nrm(cr(a, b))), case)
    return dict(evaluations=ev, classes=sorted(classes), failures=failures, samples=samples)


def bounded(tier, seed):
    return [("assembled shapes against closed forms", bounded_builders, (seed, tier == "thorough"), 3000)]


def replay_case(case):
    r = bounded_builders(0, False)
    return dict(fails=bool(r["failures"]), observed=[f["what"] for f in r["failures"][:3]])
