"""Hash world (DESIGN C08): `round` is the identity on symbolic reals (the
digit count is C19's obligation) and `hash` of a tuple is an uninterpreted
function of its components (assumption A4).  The obligation
"a == b  =>  hash(a) == hash(b)" becomes: the quantities fed to round()/hash()
are equal as reals, with + and * of hashes commutative."""
import builtins

from . import sym as S
from .sym import Sym, SymBool, And, Or, F
from . import spec as SP

HASH_MODULES = ["Geometry3D.geometry.point", "Geometry3D.utils.vector", "Geometry3D.geometry.line", "Geometry3D.geometry.plane", "Geometry3D.geometry.segment",
                "Geometry3D.geometry.halfline", "Geometry3D.geometry.polygon", "Geometry3D.geometry.polyhedron"]


class HVal(object):
    """symbolic hash value: ('tuple', items) | ('+', a, b) | ('*', a, b)"""

    def __init__(self, kind, items):
        self.kind, self.items = kind, tuple(items)

    def __add__(self, o):
        if isinstance(o, int) and o == 0:
            return self
        if not isinstance(o, HVal):
            return NotImplemented
        return HVal("+", (self, o))

    __radd__ = __add__

    def __mul__(self, o):
        if not isinstance(o, HVal):
            return NotImplemented
        return HVal("*", (self, o))

    __rmul__ = __mul__

    def __round__(self, k=None):
        return self

    def __eq__(self, o):
        if not isinstance(o, HVal):
            return False
        return SymBool(heq(self, o))

    def __ne__(self, o):
        return ~(self == o) if isinstance(o, HVal) else True

    def __hash__(self):
        return 0

    def __repr__(self):
        return "HVal(%s, %d)" % (self.kind, len(self.items))


def _flatten(h, op):
    if isinstance(h, HVal) and h.kind == op:
        out = []
        for x in h.items:
            out.extend(_flatten(x, op))
        return out
    return [h]


def heq(a, b):
    """sufficient condition (formula) for the two symbolic hash values to be equal"""
    if isinstance(a, HVal) and isinstance(b, HVal):
        if a.kind != b.kind:
            return False
        if a.kind == "tuple":
            if len(a.items) != len(b.items):
                return False
            return And(*[heq(x, y) for x, y in zip(a.items, b.items)])
        xs, ys = _flatten(a, a.kind), _flatten(b, b.kind)
        if len(xs) != len(ys):
            return False
        if len(xs) > 4:
            return And(*[heq(x, y) for x, y in zip(xs, ys)])  # long sums: compared in order (not used for order-freeness proofs)
        import itertools
        return Or(*[And(*[heq(x, y) for x, y in zip(xs, perm)]) for perm in itertools.permutations(ys)])
    if isinstance(a, HVal) or isinstance(b, HVal):
        return False
    if isinstance(a, str) or isinstance(b, str):
        return a == b
    return SP.eq(a, b) if (isinstance(a, Sym) or isinstance(b, Sym)) else a == b


def sym_round(x, k=None):
    if isinstance(x, (Sym, HVal)):
        S.engine().hit("round")
        return x
    return builtins.round(x, k) if k is not None else builtins.round(x)


def sym_hash(o):
    if isinstance(o, HVal):
        return o
    if isinstance(o, tuple):
        return HVal("tuple", [sym_hash(x) if isinstance(x, tuple) or hasattr(type(o), "__mro__") and _lib(x) else x for x in o])
    if _lib(o):
        return type(o).__hash__(o)
    return o if isinstance(o, (Sym, str, int, float)) else builtins.hash(o)


def _lib(x):
    return type(x).__module__.startswith("Geometry3D.")


def install(rb):
    for mn in HASH_MODULES:
        rb.set_global(mn, "hash", sym_hash)
        rb.set_global(mn, "round", sym_round)
