"""Exact rational oracle for the denotations of Geometry3D objects.

Trusted code.  Standard library only (``fractions``, ``itertools``, ``math``);
neither z3 nor Geometry3D is imported at module import time (``to_lib`` imports
Geometry3D lazily).  Everything except the functions whose name ends in
``_float`` and the float side of ``matches`` / ``hash_*`` is exact: no floats,
no tolerances.

Exact objects are plain tuples, a point / vector is a 3-tuple of ``Fraction``
(ints are accepted everywhere and converted):

    ('Point', p)
    ('Line', p, d)          d != 0
    ('HalfLine', p, d)      starts at p, direction d != 0
    ('Segment', a, b)       a != b
    ('Plane', p, n)         n != 0, not necessarily unit
    ('Polygon', (v0, v1, ...))       planar, strictly convex, cyclic order
    ('Polyhedron', (face0, ...))     closed convex, face = vertices in cyclic order

Canonical results of ``intersect`` are ``None`` or one of the tuples above in
the normal form produced by ``canonical``.

Method.  ``intersect`` of two flat objects (Point/Line/HalfLine/Segment/Plane)
is a direct case analysis (carrier lines skew / parallel / crossing / identical
with 1-D parameter intervals; plane against linear thing; plane against plane).
Every pair with a Polygon or Polyhedron has a bounded result and is computed
generically: both operands become sets of linear equalities / inequalities
(H-representation), the constraints are united, every rank-3 triple of
constraints is solved and the feasible solutions are the vertices; the affine
dimension of the vertex set decides Point / Segment / Polygon / Polyhedron.
``contains`` is written independently of the H-representation so that the two
can be checked against each other (oracle_selftest.py).
"""
from fractions import Fraction
from itertools import combinations
import math

KINDS = ('Point', 'Line', 'HalfLine', 'Segment', 'Plane', 'Polygon', 'Polyhedron')
FLAT_KINDS = KINDS[:5]
LINEAR_KINDS = ('Line', 'HalfLine', 'Segment')
UNBOUNDED_KINDS = ('Line', 'HalfLine', 'Plane')

# ---------------------------------------------------------------------------
# exact vectors
# ---------------------------------------------------------------------------


def vec(p):
    """3-tuple of Fractions from any 3 numbers (int, Fraction; floats are taken exactly)."""
    x, y, z = p
    return (Fraction(x), Fraction(y), Fraction(z))


def add(u, v):
    return (u[0] + v[0], u[1] + v[1], u[2] + v[2])


def sub(u, v):
    return (u[0] - v[0], u[1] - v[1], u[2] - v[2])


def scale(k, u):
    return (k * u[0], k * u[1], k * u[2])


def dot(u, v):
    return u[0] * v[0] + u[1] * v[1] + u[2] * v[2]


def cross(u, v):
    return (u[1] * v[2] - u[2] * v[1],
            u[2] * v[0] - u[0] * v[2],
            u[0] * v[1] - u[1] * v[0])


def norm2(u):
    return dot(u, u)


def is_zero(u):
    return u[0] == 0 and u[1] == 0 and u[2] == 0


def det3(u, v, w):
    return dot(u, cross(v, w))


def sign(x):
    return (x > 0) - (x < 0)


def _primitive(u):
    """The shortest integer vector that is a positive multiple of u (u != 0)."""
    u = vec(u)
    den = 1
    for c in u:
        den = den * c.denominator // math.gcd(den, c.denominator)
    ints = [int(c * den) for c in u]
    g = math.gcd(math.gcd(abs(ints[0]), abs(ints[1])), abs(ints[2]))
    return (Fraction(ints[0] // g), Fraction(ints[1] // g), Fraction(ints[2] // g))


def _primitive_unsigned(u):
    """_primitive(u) or _primitive(-u): the one whose first non-zero entry is positive."""
    u = _primitive(u)
    for c in u:
        if c != 0:
            return u if c > 0 else scale(-1, u)
    raise ValueError('zero vector')


# ---------------------------------------------------------------------------
# objects: validation, features
# ---------------------------------------------------------------------------


def exact(obj):
    """The same object with every coordinate converted to Fraction (None stays None)."""
    if obj is None:
        return None
    kind = obj[0]
    if kind == 'Point':
        return ('Point', vec(obj[1]))
    if kind in ('Line', 'HalfLine', 'Plane', 'Segment'):
        return (kind, vec(obj[1]), vec(obj[2]))
    if kind == 'Polygon':
        return ('Polygon', tuple(vec(v) for v in obj[1]))
    if kind == 'Polyhedron':
        return ('Polyhedron', tuple(tuple(vec(v) for v in f) for f in obj[1]))
    raise ValueError('unknown kind %r' % (kind,))


def polygon_normal(verts):
    """(v1-v0) x (v2-v0); non-zero for a strictly convex polygon; the cyclic order
    is counter-clockwise when seen from the side this normal points to."""
    return cross(sub(verts[1], verts[0]), sub(verts[2], verts[0]))


def polygon_edges(verts):
    n = len(verts)
    return [(verts[i], verts[(i + 1) % n]) for i in range(n)]


def polyhedron_vertices(faces):
    seen, out = set(), []
    for f in faces:
        for v in f:
            if v not in seen:
                seen.add(v)
                out.append(v)
    return out


def polyhedron_edges(faces):
    """Every edge once, as a pair (a, b) with a < b lexicographically."""
    seen, out = set(), []
    for f in faces:
        for a, b in polygon_edges(f):
            e = (a, b) if a <= b else (b, a)
            if e not in seen:
                seen.add(e)
                out.append(e)
    return out


def centroid(points):
    n = len(points)
    return (sum(p[0] for p in points) / Fraction(n),
            sum(p[1] for p in points) / Fraction(n),
            sum(p[2] for p in points) / Fraction(n))


def outward_normal(face, inner):
    """Normal of the face plane pointing away from the point ``inner`` (not on the plane)."""
    n = polygon_normal(face)
    s = dot(sub(inner, face[0]), n)
    if s == 0:
        raise ValueError('reference point lies on the face plane')
    return n if s < 0 else scale(-1, n)


def affine_rank(points):
    """Dimension of the affine hull of the points: -1 (empty), 0, 1, 2 or 3."""
    pts = list(points)
    if not pts:
        return -1
    p0 = pts[0]
    d1 = None
    for p in pts:
        if p != p0:
            d1 = sub(p, p0)
            break
    if d1 is None:
        return 0
    n = None
    for p in pts:
        c = cross(d1, sub(p, p0))
        if not is_zero(c):
            n = c
            break
    if n is None:
        return 1
    for p in pts:
        if dot(n, sub(p, p0)) != 0:
            return 3
    return 2


def plane_normal(points):
    """A normal of the plane through a point set of affine rank 2."""
    p0 = points[0]
    d1 = next(sub(p, p0) for p in points if p != p0)
    return next(c for c in (cross(d1, sub(p, p0)) for p in points) if not is_zero(c))


def check_object(obj):
    """Raise ValueError unless obj is a well-formed exact object (strict convexity,
    planarity and closedness included).  Used by the catalogue and the self-test."""
    obj = exact(obj)
    kind = obj[0]
    if kind in ('Line', 'HalfLine', 'Plane'):
        if is_zero(obj[2]):
            raise ValueError('zero direction / normal')
    elif kind == 'Segment':
        if obj[1] == obj[2]:
            raise ValueError('degenerate segment')
    elif kind == 'Polygon':
        _check_polygon(obj[1])
    elif kind == 'Polyhedron':
        faces = obj[1]
        verts = polyhedron_vertices(faces)
        if affine_rank(verts) != 3:
            raise ValueError('flat polyhedron')
        c = centroid(verts)
        for f in faces:
            _check_polygon(f)
            n = outward_normal(f, c)
            on = set(f)
            for v in verts:
                s = dot(n, sub(v, f[0]))
                if s > 0 or (s == 0 and v not in on):
                    raise ValueError('not convex, or a vertex on a face plane is missing from the face')
        # closed: every edge belongs to exactly two faces
        count = {}
        for f in faces:
            for a, b in polygon_edges(f):
                e = frozenset((a, b))
                count[e] = count.get(e, 0) + 1
        if any(k != 2 for k in count.values()):
            raise ValueError('not closed')
        if len(verts) - len(count) + len(faces) != 2:
            raise ValueError('Euler characteristic')
    return obj


def _check_polygon(verts):
    if len(verts) < 3 or len(set(verts)) != len(verts):
        raise ValueError('polygon needs >= 3 distinct vertices')
    n = polygon_normal(verts)
    if is_zero(n):
        raise ValueError('first three vertices collinear')
    k = len(verts)
    for i in range(k):
        a, b, c = verts[i], verts[(i + 1) % k], verts[(i + 2) % k]
        if dot(sub(a, verts[0]), n) != 0:
            raise ValueError('not planar')
        if dot(cross(sub(b, a), sub(c, b)), n) <= 0:
            raise ValueError('not strictly convex / not in cyclic order')
    # cyclic order winds once: every vertex is on the inner side of every edge
    for a, b in polygon_edges(verts):
        for v in verts:
            if dot(cross(sub(b, a), sub(v, a)), n) < 0:
                raise ValueError('not convex')


# ---------------------------------------------------------------------------
# membership
# ---------------------------------------------------------------------------


def contains(obj, x):
    """x (3-tuple) is a point of obj; boundary counts as inside."""
    obj = exact(obj)
    x = vec(x)
    kind = obj[0]
    if kind == 'Point':
        return obj[1] == x
    if kind == 'Line':
        return is_zero(cross(sub(x, obj[1]), obj[2]))
    if kind == 'HalfLine':
        w = sub(x, obj[1])
        return is_zero(cross(w, obj[2])) and dot(w, obj[2]) >= 0
    if kind == 'Segment':
        d = sub(obj[2], obj[1])
        w = sub(x, obj[1])
        return is_zero(cross(w, d)) and 0 <= dot(w, d) <= dot(d, d)
    if kind == 'Plane':
        return dot(sub(x, obj[1]), obj[2]) == 0
    if kind == 'Polygon':
        verts = obj[1]
        n = polygon_normal(verts)
        if dot(sub(x, verts[0]), n) != 0:
            return False
        # counter-clockwise w.r.t. n: x is on the left of (or on) every edge
        return all(dot(cross(sub(b, a), sub(x, a)), n) >= 0 for a, b in polygon_edges(verts))
    if kind == 'Polyhedron':
        faces = obj[1]
        c = centroid(polyhedron_vertices(faces))
        return all(dot(outward_normal(f, c), sub(x, f[0])) <= 0 for f in faces)
    raise ValueError('unknown kind %r' % (kind,))


def contains_obj(container, obj):
    """Every point of obj is a point of container."""
    container, obj = exact(container), exact(obj)
    k = obj[0]
    if k == 'Point':
        return contains(container, obj[1])
    if k in ('Segment', 'Polygon', 'Polyhedron'):
        # bounded convex obj, convex container: the vertices decide
        return all(contains(container, v) for v in vertices(obj))
    c = container[0]
    if k == 'Line':
        if c == 'Line':
            return contains(container, obj[1]) and is_zero(cross(obj[2], container[2]))
        if c == 'Plane':
            return contains(container, obj[1]) and dot(obj[2], container[2]) == 0
        return False
    if k == 'HalfLine':
        if c == 'Line':
            return contains(container, obj[1]) and is_zero(cross(obj[2], container[2]))
        if c == 'HalfLine':
            return (contains(container, obj[1]) and is_zero(cross(obj[2], container[2]))
                    and dot(obj[2], container[2]) > 0)
        if c == 'Plane':
            return contains(container, obj[1]) and dot(obj[2], container[2]) == 0
        return False
    if k == 'Plane':
        if c == 'Plane':
            return contains(container, obj[1]) and is_zero(cross(obj[2], container[2]))
        return False
    raise ValueError('unknown kind %r' % (k,))


# ---------------------------------------------------------------------------
# canonical form, set equality, vertices
# ---------------------------------------------------------------------------


def order_cyclic(points):
    """The extreme points of a planar point set (affine rank 2) in cyclic order.

    The plane is projected on the coordinate plane where its normal is largest
    (an affine bijection of the plane, so order and convexity are preserved) and
    Andrew's monotone chain is run with exact arithmetic.  Points that are not
    extreme (inside, or in the interior of an edge) are dropped.  The result
    starts at the lexicographically smallest projected point."""
    pts = sorted(set(points))
    if affine_rank(pts) != 2:
        raise ValueError('order_cyclic needs a planar, non-collinear point set')
    n = plane_normal(pts)
    drop = max(range(3), key=lambda i: abs(n[i]))
    keep = [i for i in range(3) if i != drop]
    flat = sorted((p[keep[0]], p[keep[1]], p) for p in pts)

    def turn(o, a, b):
        return (a[0] - o[0]) * (b[1] - o[1]) - (a[1] - o[1]) * (b[0] - o[0])

    lower = []
    for q in flat:
        while len(lower) >= 2 and turn(lower[-2], lower[-1], q) <= 0:
            lower.pop()
        lower.append(q)
    upper = []
    for q in reversed(flat):
        while len(upper) >= 2 and turn(upper[-2], upper[-1], q) <= 0:
            upper.pop()
        upper.append(q)
    hull = lower[:-1] + upper[:-1]
    return tuple(q[2] for q in hull)


def canonical(r):
    """Normal form of a result / object (same point set, unique representation)."""
    r = exact(r)
    if r is None:
        return None
    kind = r[0]
    if kind == 'Point':
        return r
    if kind == 'Segment':
        a, b = sorted((r[1], r[2]))
        return ('Segment', a, b)
    if kind == 'HalfLine':
        return ('HalfLine', r[1], _primitive(r[2]))
    if kind == 'Line':
        d = _primitive_unsigned(r[2])
        p = sub(r[1], scale(dot(r[1], d) / norm2(d), d))  # foot of the origin
        return ('Line', p, d)
    if kind == 'Plane':
        n = _primitive_unsigned(r[2])
        p = scale(dot(r[1], n) / norm2(n), n)  # foot of the origin
        return ('Plane', p, n)
    if kind == 'Polygon':
        return ('Polygon', order_cyclic(r[1]))
    if kind == 'Polyhedron':
        faces = sorted((order_cyclic(f) for f in r[1]), key=lambda f: sorted(f))
        return ('Polyhedron', tuple(faces))
    raise ValueError('unknown kind %r' % (kind,))


def vertices(r):
    """Vertices / end points of a canonical result: Point -> [p]; Segment -> both ends;
    Polygon -> its vertices; Polyhedron -> its distinct vertices; HalfLine -> [origin];
    None, Line, Plane -> []."""
    if r is None:
        return []
    kind = r[0]
    if kind == 'Point':
        return [vec(r[1])]
    if kind == 'Segment':
        return [vec(r[1]), vec(r[2])]
    if kind == 'HalfLine':
        return [vec(r[1])]
    if kind in ('Line', 'Plane'):
        return []
    if kind == 'Polygon':
        return [vec(v) for v in r[1]]
    if kind == 'Polyhedron':
        return polyhedron_vertices(tuple(tuple(vec(v) for v in f) for f in r[1]))
    raise ValueError('unknown kind %r' % (kind,))


def same_set(r1, r2):
    """Two canonical results denote the same point set (exact)."""
    if r1 is None or r2 is None:
        return r1 is None and r2 is None
    r1, r2 = exact(r1), exact(r2)
    if r1[0] != r2[0]:
        return False
    kind = r1[0]
    if kind == 'Point':
        return r1[1] == r2[1]
    if kind == 'Segment':
        return {r1[1], r1[2]} == {r2[1], r2[2]}
    if kind == 'HalfLine':
        return (r1[1] == r2[1] and is_zero(cross(r1[2], r2[2])) and dot(r1[2], r2[2]) > 0)
    if kind == 'Line':
        return is_zero(cross(r1[2], r2[2])) and is_zero(cross(sub(r2[1], r1[1]), r1[2]))
    if kind == 'Plane':
        return is_zero(cross(r1[2], r2[2])) and dot(sub(r2[1], r1[1]), r1[2]) == 0
    if kind == 'Polygon':
        return len(r1[1]) == len(r2[1]) and set(r1[1]) == set(r2[1])
    if kind == 'Polyhedron':
        v1, v2 = polyhedron_vertices(r1[1]), polyhedron_vertices(r2[1])
        return len(v1) == len(v2) and set(v1) == set(v2)
    raise ValueError('unknown kind %r' % (kind,))


# ---------------------------------------------------------------------------
# intersection: flat against flat, direct case analysis
# ---------------------------------------------------------------------------


def _param_form(obj):
    """Linear thing as (p, d, lo, hi): the points p + s d with lo <= s <= hi,
    None meaning unbounded on that side."""
    kind = obj[0]
    if kind == 'Line':
        return obj[1], obj[2], None, None
    if kind == 'HalfLine':
        return obj[1], obj[2], Fraction(0), None
    if kind == 'Segment':
        return obj[1], sub(obj[2], obj[1]), Fraction(0), Fraction(1)
    raise ValueError(kind)


def _in_interval(s, lo, hi):
    return (lo is None or s >= lo) and (hi is None or s <= hi)


def _from_interval(p, d, lo, hi):
    """The subset lo <= s <= hi of the carrier p + s d as a canonical result."""
    if lo is not None and hi is not None:
        if lo > hi:
            return None
        if lo == hi:
            return ('Point', add(p, scale(lo, d)))
        return canonical(('Segment', add(p, scale(lo, d)), add(p, scale(hi, d))))
    if lo is not None:
        return canonical(('HalfLine', add(p, scale(lo, d)), d))
    if hi is not None:
        return canonical(('HalfLine', add(p, scale(hi, d)), scale(-1, d)))
    return canonical(('Line', p, d))


def _linear_linear(a, b):
    p1, d1, lo1, hi1 = _param_form(a)
    p2, d2, lo2, hi2 = _param_form(b)
    w = sub(p2, p1)
    c = cross(d1, d2)
    if not is_zero(c):
        if dot(w, c) != 0:
            return None  # skew
        # coplanar, crossing: p1 + s d1 = p2 + t d2
        cc = norm2(c)
        s = dot(cross(w, d2), c) / cc
        t = dot(cross(w, d1), c) / cc
        if _in_interval(s, lo1, hi1) and _in_interval(t, lo2, hi2):
            return ('Point', add(p1, scale(s, d1)))
        return None
    if not is_zero(cross(w, d1)):
        return None  # parallel, distinct carriers
    # same carrier: express b in the parameter of a; p2 + t d2 = p1 + (s0 + k t) d1
    dd = norm2(d1)
    s0 = dot(w, d1) / dd
    k = dot(d2, d1) / dd  # non-zero
    ends = [None if t is None else s0 + k * t for t in (lo2, hi2)]
    if k < 0:
        ends.reverse()
    lo_b, hi_b = ends
    lo = lo1 if lo_b is None else (lo_b if lo1 is None else max(lo1, lo_b))
    hi = hi1 if hi_b is None else (hi_b if hi1 is None else min(hi1, hi_b))
    return _from_interval(p1, d1, lo, hi)


def _plane_linear(plane, lin):
    q, n = plane[1], plane[2]
    p, d, lo, hi = _param_form(lin)
    dn = dot(d, n)
    if dn == 0:
        if dot(sub(p, q), n) == 0:
            return canonical(lin)  # lies in the plane
        return None  # parallel, off the plane
    t = dot(sub(q, p), n) / dn
    if _in_interval(t, lo, hi):
        return ('Point', add(p, scale(t, d)))
    return None


def _plane_plane(a, b):
    p1, n1 = a[1], a[2]
    p2, n2 = b[1], b[2]
    d = cross(n1, n2)
    if is_zero(d):
        if dot(sub(p2, p1), n1) == 0:
            return canonical(a)
        return None
    # the point of the common line closest to the origin:
    # n1.x = c1, n2.x = c2, d.x = 0  =>  x = (c1 (n2 x d) + c2 (d x n1)) / (d.d)
    c1, c2 = dot(n1, p1), dot(n2, p2)
    x = scale(1 / norm2(d), add(scale(c1, cross(n2, d)), scale(c2, cross(d, n1))))
    return canonical(('Line', x, d))


def intersect_flat(a, b):
    """a ∩ b for a, b among Point/Line/HalfLine/Segment/Plane (direct case analysis)."""
    a, b = exact(a), exact(b)
    ka, kb = a[0], b[0]
    if ka == 'Point':
        return a if contains(b, a[1]) else None
    if kb == 'Point':
        return b if contains(a, b[1]) else None
    if ka == 'Plane' and kb == 'Plane':
        return _plane_plane(a, b)
    if ka == 'Plane':
        return _plane_linear(a, b)
    if kb == 'Plane':
        return _plane_linear(b, a)
    return _linear_linear(a, b)


# ---------------------------------------------------------------------------
# intersection: generic, by vertex enumeration on the H-representation
# ---------------------------------------------------------------------------


def _int_row(n, c, is_eq):
    """The constraint n.x <= c (or = c) with primitive integer coefficients."""
    vals = [Fraction(n[0]), Fraction(n[1]), Fraction(n[2]), Fraction(c)]
    den = 1
    for v in vals:
        den = den * v.denominator // math.gcd(den, v.denominator)
    ints = [int(v * den) for v in vals]
    g = 0
    for v in ints:
        g = math.gcd(g, abs(v))
    ints = [v // g for v in ints]
    if is_eq:
        for v in ints:
            if v != 0:
                if v < 0:
                    ints = [-w for w in ints]
                break
    return ((ints[0], ints[1], ints[2]), ints[3], is_eq)


def _line_equations(p, d):
    """Two independent planes through the line p + s d."""
    cands = [cross(d, e) for e in ((1, 0, 0), (0, 1, 0), (0, 0, 1))]
    cands = [c for c in cands if not is_zero(c)]
    n1 = cands[0]
    n2 = next(c for c in cands[1:] if not is_zero(cross(n1, c)))
    return [_int_row(n1, dot(n1, p), True), _int_row(n2, dot(n2, p), True)]


def hrep(obj):
    """The object as a list of constraints (n, c, is_eq): n.x = c if is_eq else n.x <= c,
    with integer n, c."""
    obj = exact(obj)
    kind = obj[0]
    if kind == 'Point':
        p = obj[1]
        return [_int_row(e, p[i], True) for i, e in enumerate(((1, 0, 0), (0, 1, 0), (0, 0, 1)))]
    if kind == 'Line':
        return _line_equations(obj[1], obj[2])
    if kind == 'HalfLine':
        p, d = obj[1], obj[2]
        return _line_equations(p, d) + [_int_row(scale(-1, d), -dot(d, p), False)]
    if kind == 'Segment':
        a, b = obj[1], obj[2]
        d = sub(b, a)
        return _line_equations(a, d) + [_int_row(scale(-1, d), -dot(d, a), False),
                                        _int_row(d, dot(d, b), False)]
    if kind == 'Plane':
        return [_int_row(obj[2], dot(obj[2], obj[1]), True)]
    if kind == 'Polygon':
        verts = obj[1]
        n = polygon_normal(verts)
        rows = [_int_row(n, dot(n, verts[0]), True)]
        for a, b in polygon_edges(verts):
            m = cross(sub(b, a), n)  # in the plane, pointing out of the polygon
            rows.append(_int_row(m, dot(m, a), False))
        return rows
    if kind == 'Polyhedron':
        faces = obj[1]
        c = centroid(polyhedron_vertices(faces))
        rows = []
        for f in faces:
            n = outward_normal(f, c)
            rows.append(_int_row(n, dot(n, f[0]), False))
        return rows
    raise ValueError('unknown kind %r' % (kind,))


def satisfies(rows, x):
    """x satisfies every constraint of an H-representation."""
    for n, c, is_eq in rows:
        v = dot(n, x)
        if (v != c) if is_eq else (v > c):
            return False
    return True


def enumerate_vertices(rows):
    """All vertices of {x : rows}: the feasible solutions of rank-3 triples of constraints
    taken with equality.  Integer arithmetic (Cramer) until the final division."""
    rows = list(dict.fromkeys(rows))
    m = len(rows)
    N = [r[0] for r in rows]
    C = [r[1] for r in rows]
    pair = {}
    for i, j in combinations(range(m), 2):
        pair[(i, j)] = cross(N[i], N[j])
    found = set()
    for i, j in combinations(range(m), 2):
        cij = pair[(i, j)]
        if cij == (0, 0, 0):
            continue
        for k in range(j + 1, m):
            det = dot(cij, N[k])
            if det == 0:
                continue
            cjk, cik = pair[(j, k)], pair[(i, k)]  # N_k x N_i = -cik
            X = [C[i] * cjk[t] - C[j] * cik[t] + C[k] * cij[t] for t in range(3)]
            if det < 0:
                det = -det
                X = [-v for v in X]
            ok = True
            for n, c, is_eq in rows:
                v = n[0] * X[0] + n[1] * X[1] + n[2] * X[2] - c * det
                if (v != 0) if is_eq else (v > 0):
                    ok = False
                    break
            if ok:
                found.add((Fraction(X[0], det), Fraction(X[1], det), Fraction(X[2], det)))
    return sorted(found)


def from_vertices(verts, rows=()):
    """Canonical bounded convex set with the given vertex set; for a 3-dimensional set the
    faces are the groups of vertices tight on one inequality of ``rows``."""
    verts = sorted(set(verts))
    rank = affine_rank(verts)
    if rank == -1:
        return None
    if rank == 0:
        return ('Point', verts[0])
    if rank == 1:
        d = sub(verts[-1], verts[0])
        lo = min(verts, key=lambda v: dot(v, d))
        hi = max(verts, key=lambda v: dot(v, d))
        return canonical(('Segment', lo, hi))
    if rank == 2:
        return ('Polygon', order_cyclic(verts))
    faces, seen = [], set()
    for n, c, is_eq in rows:
        if is_eq:
            continue
        tight = [v for v in verts if dot(n, v) == c]
        if len(tight) >= 3 and affine_rank(tight) == 2:
            key = frozenset(tight)
            if key not in seen:
                seen.add(key)
                faces.append(order_cyclic(tight))
    return canonical(('Polyhedron', tuple(faces)))


def intersect_generic(a, b):
    """a ∩ b by vertex enumeration; requires a bounded operand (Point, Segment, Polygon,
    Polyhedron) so that the result is bounded."""
    a, b = exact(a), exact(b)
    if a[0] in UNBOUNDED_KINDS and b[0] in UNBOUNDED_KINDS:
        raise ValueError('intersect_generic needs a bounded operand')
    rows = hrep(a) + hrep(b)
    return from_vertices(enumerate_vertices(rows), rows)


def intersect(a, b):
    """The exact common point set of a and b in canonical form (all 49 ordered pairs)."""
    a, b = exact(a), exact(b)
    if a[0] in FLAT_KINDS and b[0] in FLAT_KINDS:
        return intersect_flat(a, b)
    return intersect_generic(a, b)


# ---------------------------------------------------------------------------
# exact convex hull of a small 3-D point set (used by the catalogue)
# ---------------------------------------------------------------------------


def convex_hull(points):
    """('Polyhedron', faces) of <= ~12 points of affine rank 3, brute force: every
    non-collinear triple whose plane has all points on one side is a supporting plane;
    the points on it form one face (coplanar triples merge, vertices ordered cyclically,
    non-extreme points dropped)."""
    pts = sorted(set(vec(p) for p in points))
    if affine_rank(pts) != 3:
        raise ValueError('convex_hull needs points of affine rank 3')
    faces, seen = [], set()
    for a, b, c in combinations(pts, 3):
        n = cross(sub(b, a), sub(c, a))
        if is_zero(n):
            continue
        sides = [sign(dot(n, sub(p, a))) for p in pts]
        if min(sides) < 0 and max(sides) > 0:
            continue
        face = order_cyclic([p for p, s in zip(pts, sides) if s == 0])
        key = frozenset(face)
        if key not in seen:
            seen.add(key)
            faces.append(face)
    return canonical(('Polyhedron', tuple(faces)))


# ---------------------------------------------------------------------------
# measures
# ---------------------------------------------------------------------------


def _sqrt(q):
    """float square root of a non-negative Fraction (integer square roots keep precision)."""
    q = Fraction(q)
    return math.sqrt(q.numerator) / math.sqrt(q.denominator)


def length2(segment):
    """Exact squared length of ('Segment', a, b)."""
    s = exact(segment)
    return norm2(sub(s[2], s[1]))


def length_float(segment):
    return _sqrt(length2(segment))


def perimeter_float(polygon):
    verts = exact(polygon)[1]
    return sum(_sqrt(norm2(sub(b, a))) for a, b in polygon_edges(verts))


def area2_polygon(polygon):
    """Exact (2*area)^2 = |sum v_i x v_{i+1}|^2 of a planar polygon."""
    verts = exact(polygon)[1]
    total = (Fraction(0), Fraction(0), Fraction(0))
    for a, b in polygon_edges(verts):
        total = add(total, cross(a, b))
    return norm2(total)


def area_float(polygon):
    return _sqrt(area2_polygon(polygon)) / 2


def volume(polyhedron):
    """Exact volume: fan of tetrahedra from one vertex over the triangulated faces
    (|det|/6 each; the apex is a point of the convex body, so no orientation is needed)."""
    faces = exact(polyhedron)[1]
    o = faces[0][0]
    total = Fraction(0)
    for f in faces:
        for i in range(1, len(f) - 1):
            total += abs(det3(sub(f[0], o), sub(f[i], o), sub(f[i + 1], o)))
    return total / 6


def surface_area_float(polyhedron):
    return sum(area_float(('Polygon', f)) for f in exact(polyhedron)[1])


def edge_length_sum_float(polyhedron):
    """Sum of the edge lengths, each edge once."""
    return sum(_sqrt(norm2(sub(b, a))) for a, b in polyhedron_edges(exact(polyhedron)[1]))


def distance2(a, b):
    """Exact squared minimum Euclidean distance for Point-Point, Point-Line, Line-Line,
    Point-Plane, Line-Plane (either order)."""
    a, b = exact(a), exact(b)
    order = {'Point': 0, 'Line': 1, 'Plane': 2}
    if a[0] not in order or b[0] not in order:
        raise NotImplementedError('distance2 %s %s' % (a[0], b[0]))
    if order[a[0]] > order[b[0]]:
        a, b = b, a
    ka, kb = a[0], b[0]
    if ka == 'Point' and kb == 'Point':
        return norm2(sub(a[1], b[1]))
    if ka == 'Point' and kb == 'Line':
        return norm2(cross(sub(a[1], b[1]), b[2])) / norm2(b[2])
    if ka == 'Point' and kb == 'Plane':
        return dot(sub(a[1], b[1]), b[2]) ** 2 / norm2(b[2])
    if ka == 'Line' and kb == 'Line':
        c = cross(a[2], b[2])
        w = sub(b[1], a[1])
        if is_zero(c):
            return norm2(cross(w, a[2])) / norm2(a[2])
        return dot(w, c) ** 2 / norm2(c)
    if ka == 'Line' and kb == 'Plane':
        if dot(a[2], b[2]) != 0:
            return Fraction(0)
        return dot(sub(a[1], b[1]), b[2]) ** 2 / norm2(b[2])
    raise NotImplementedError('distance2 %s %s' % (ka, kb))


def cos2_angle(u, v):
    """((u.v)^2 / (|u|^2 |v|^2), sign(u.v)) for two non-zero vectors."""
    u, v = vec(u), vec(v)
    uv = dot(u, v)
    return uv * uv / (norm2(u) * norm2(v)), sign(uv)


# ---------------------------------------------------------------------------
# bridge to the library
# ---------------------------------------------------------------------------


def to_number(q, inexact='fraction'):
    """int when integral, float when exactly representable (dyadic), else the Fraction
    itself (inexact='fraction') or the nearest double (inexact='float')."""
    q = Fraction(q)
    if inexact == 'allfraction':
        return q
    if q.denominator == 1:
        return int(q)
    den = q.denominator
    if den & (den - 1) == 0 and Fraction(float(q)) == q:
        return float(q)
    if inexact == 'float':
        return float(q)
    return q


def to_lib(obj, inexact='fraction'):
    """The Geometry3D object for an exact object (Geometry3D imported here, lazily).

    inexact='fraction' (default): non-dyadic coordinates are passed as Fractions.
    NOTE: under Python < 3.12 the library's Point.__init__ formats its repr with
    '{:.2f}', which Fraction does not support there, so such Points raise TypeError;
    use inexact='float' to pass the nearest doubles instead."""
    import Geometry3D as g3d

    def P(p):
        return g3d.Point(*[to_number(c, inexact) for c in p])

    def V(p):
        return g3d.Vector(*[to_number(c, inexact) for c in p])

    obj = exact(obj)
    kind = obj[0]
    if kind == 'Point':
        return P(obj[1])
    if kind == 'Line':
        return g3d.Line(P(obj[1]), V(obj[2]))
    if kind == 'HalfLine':
        return g3d.HalfLine(P(obj[1]), V(obj[2]))
    if kind == 'Segment':
        return g3d.Segment(P(obj[1]), P(obj[2]))
    if kind == 'Plane':
        return g3d.Plane(P(obj[1]), V(obj[2]))
    if kind == 'Polygon':
        return g3d.ConvexPolygon(tuple(P(v) for v in obj[1]))
    if kind == 'Polyhedron':
        return g3d.ConvexPolyhedron(tuple(g3d.ConvexPolygon(tuple(P(v) for v in f)) for f in obj[1]))
    raise ValueError('unknown kind %r' % (kind,))


def _f3(p):
    return (float(p[0]), float(p[1]), float(p[2]))


def from_lib(x):
    """Canonical float description of a library object (recognised by class name):
    None, ('Point', p), ('Segment', a, b), ('HalfLine', p, d), ('Line', sv, dv),
    ('Plane', p, n), ('Polygon', verts) from .points, and
    ('Polyhedron', faces, verts) with faces from .convex_polygons and verts = sorted .point_set."""
    if x is None:
        return None
    name = type(x).__name__
    if name == 'Point':
        return ('Point', _f3(x))
    if name == 'Segment':
        return ('Segment', _f3(x.start_point), _f3(x.end_point))
    if name == 'HalfLine':
        return ('HalfLine', _f3(x.point), _f3(x.vector))
    if name == 'Line':
        return ('Line', _f3(x.sv), _f3(x.dv))
    if name == 'Plane':
        return ('Plane', _f3(x.p), _f3(x.n))
    if name == 'ConvexPolygon':
        return ('Polygon', tuple(_f3(p) for p in x.points))
    if name == 'ConvexPolyhedron':
        faces = tuple(tuple(_f3(p) for p in cpg.points) for cpg in x.convex_polygons)
        return ('Polyhedron', faces, tuple(sorted(_f3(p) for p in x.point_set)))
    raise TypeError('not a Geometry3D geometry: %r' % (x,))


def _fclose(p, q, tol):
    return all(abs(float(a) - float(b)) <= tol * max(1.0, abs(float(a)), abs(float(b)))
               for a, b in zip(p, q))


def _fdot(u, v):
    return u[0] * v[0] + u[1] * v[1] + u[2] * v[2]


def _fcross(u, v):
    return (u[1] * v[2] - u[2] * v[1], u[2] * v[0] - u[0] * v[2], u[0] * v[1] - u[1] * v[0])


def _fsub(u, v):
    return (u[0] - v[0], u[1] - v[1], u[2] - v[2])


def _fnorm(u):
    return math.sqrt(_fdot(u, u))


def _same_point_sets(lib_pts, exact_pts, tol):
    if len(lib_pts) != len(exact_pts):
        return False, 'vertex count %d, expected %d' % (len(lib_pts), len(exact_pts))
    left = [_f3(p) for p in exact_pts]
    for p in lib_pts:
        hit = next((q for q in left if _fclose(p, q, tol)), None)
        if hit is None:
            return False, 'vertex %r not among the expected vertices' % (p,)
        left.remove(hit)
    return True, 'ok'


def matches(lib_result, exact_result, tol=1e-7, faces=False):
    """(ok, reason): the library result (object, or its from_lib description) is the exact
    canonical result within tol.  Same type; points coordinate-wise; segments up to order;
    half-lines same origin and positively parallel direction; lines / planes as sets;
    polygons / polyhedra same vertex set (order-free, same count; faces=True also compares
    the faces of a polyhedron as vertex sets)."""
    lib = lib_result if (lib_result is None or isinstance(lib_result, tuple)) else from_lib(lib_result)
    ex = exact(exact_result)
    if lib is None or ex is None:
        if lib is None and ex is None:
            return True, 'ok'
        return False, 'library %s, expected %s' % (lib and lib[0], ex and ex[0])
    if lib[0] != ex[0]:
        return False, 'library %s, expected %s' % (lib[0], ex[0])
    kind = ex[0]
    if kind == 'Point':
        ok = _fclose(lib[1], ex[1], tol)
        return ok, 'ok' if ok else 'point differs'
    if kind == 'Segment':
        ok = ((_fclose(lib[1], ex[1], tol) and _fclose(lib[2], ex[2], tol))
              or (_fclose(lib[1], ex[2], tol) and _fclose(lib[2], ex[1], tol)))
        return ok, 'ok' if ok else 'end points differ'
    if kind in ('HalfLine', 'Line', 'Plane'):
        p, d = _f3(ex[1]), _f3(ex[2])
        lp, ld = lib[1], lib[2]
        nd, nld = _fnorm(d), _fnorm(ld)
        if nld == 0:
            return False, 'zero direction'
        size = max(1.0, max(abs(c) for c in p), max(abs(c) for c in lp))
        sin = _fnorm(_fcross(d, ld)) / (nd * nld)
        if sin > tol:
            return False, 'direction / normal not parallel'
        w = _fsub(lp, p)
        if kind == 'HalfLine':
            if not _fclose(lp, p, tol):
                return False, 'origin differs'
            if _fdot(d, ld) <= 0:
                return False, 'opposite direction'
            return True, 'ok'
        if kind == 'Line':
            off = _fnorm(_fcross(w, d)) / nd
        else:
            off = abs(_fdot(w, d)) / nd
        if off > tol * size:
            return False, 'base point off the expected %s by %g' % (kind, off)
        return True, 'ok'
    if kind == 'Polygon':
        return _same_point_sets(list(lib[1]), list(ex[1]), tol)
    if kind == 'Polyhedron':
        lib_verts = list(lib[2]) if len(lib) > 2 else polyhedron_vertices(lib[1])
        ok, why = _same_point_sets(lib_verts, polyhedron_vertices(ex[1]), tol)
        if not ok or not faces:
            return ok, why
        if len(lib[1]) != len(ex[1]):
            return False, 'face count %d, expected %d' % (len(lib[1]), len(ex[1]))
        left = [list(f) for f in ex[1]]
        for f in lib[1]:
            hit = next((e for e in left if _same_point_sets(list(f), e, tol)[0]), None)
            if hit is None:
                return False, 'a library face is not an expected face'
            left.remove(hit)
        return True, 'ok'
    raise ValueError('unknown kind %r' % (kind,))


# ---------------------------------------------------------------------------
# admission filters
# ---------------------------------------------------------------------------


def features(obj):
    """(points, lines, planes): the defining points, the line-like features (q, d) and the
    plane-like features (q, n) of an exact object."""
    obj = exact(obj)
    kind = obj[0]
    if kind == 'Point':
        return [obj[1]], [], []
    if kind in ('Line', 'HalfLine'):
        return [obj[1]], [(obj[1], obj[2])], []
    if kind == 'Segment':
        return [obj[1], obj[2]], [(obj[1], sub(obj[2], obj[1]))], []
    if kind == 'Plane':
        return [obj[1]], [], [(obj[1], obj[2])]
    if kind == 'Polygon':
        verts = obj[1]
        return (list(verts), [(a, sub(b, a)) for a, b in polygon_edges(verts)],
                [(verts[0], polygon_normal(verts))])
    if kind == 'Polyhedron':
        faces = obj[1]
        return (polyhedron_vertices(faces),
                [(a, sub(b, a)) for a, b in polyhedron_edges(faces)],
                [(f[0], polygon_normal(f)) for f in faces])
    raise ValueError('unknown kind %r' % (kind,))


def _size(*points):
    m = Fraction(1)
    for p in points:
        for c in p:
            if abs(c) > m:
                m = abs(c)
    return m


def margin_ok(a, b, rel=1e-3):
    """Admission filter: True only if every incidence relation between the defining
    features of a and b is exactly satisfied or violated by a relative margin > rel.

    Feature points: defining points / vertices / end points / base points of a and b, the
    vertices of the exact a ∩ b, and the carrier crossings between a and b (edge or line
    carrier with face or plane carrier, coplanar non-parallel line carriers).  Checked, each
    to be exactly 0 or of normalised magnitude > rel (squares compared with rel^2):
      point - line-like feature distance, point - plane-like feature distance and
      point - point distance (normalised by max(1, |coordinates involved|));
      sine between any two directions, sine between any two normals,
      cosine between any direction and any normal.
    Conservative: may reject sound cases, never accepts a near-degenerate one."""
    a, b = exact(a), exact(b)
    rel2 = Fraction(rel) ** 2
    pa, la, na = features(a)
    pb, lb, nb = features(b)

    def uniq(seq):
        return list(dict.fromkeys(seq))

    base = uniq(pa + pb + vertices(intersect(a, b)))
    lines = uniq(la + lb)
    planes = uniq(na + nb)

    # angles
    dirs = uniq(_primitive_unsigned(d) for _, d in lines)
    nrms = uniq(_primitive_unsigned(n) for _, n in planes)
    for group in (dirs, nrms):
        for u, v in combinations(group, 2):
            s2 = norm2(cross(u, v))
            if s2 != 0 and s2 <= rel2 * norm2(u) * norm2(v):
                return False
    for d in dirs:
        for n in nrms:
            c = dot(d, n)
            if c != 0 and c * c <= rel2 * norm2(d) * norm2(n):
                return False

    # carrier crossings between the two objects
    derived = []
    for ls, ns in ((la, nb), (lb, na)):
        for q, d in ls:
            for r, n in ns:
                dn = dot(d, n)
                if dn != 0:
                    derived.append(add(q, scale(dot(sub(r, q), n) / dn, d)))
    for q1, d1 in la:
        for q2, d2 in lb:
            c = cross(d1, d2)
            w = sub(q2, q1)
            if not is_zero(c) and dot(w, c) == 0:
                derived.append(add(q1, scale(dot(cross(w, d2), c) / norm2(c), d1)))
    points = uniq(base + derived)

    # distances
    for x in points:
        for q, d in lines:
            w = sub(x, q)
            c2 = norm2(cross(w, d))
            if c2 != 0 and c2 <= rel2 * norm2(d) * _size(x, q) ** 2:
                return False
        for q, n in planes:
            h = dot(sub(x, q), n)
            if h != 0 and h * h <= rel2 * norm2(n) * _size(x, q) ** 2:
                return False
        for y in base:
            d2 = norm2(sub(x, y))
            if d2 != 0 and d2 <= rel2 * _size(x, y) ** 2:
                return False
    return True


def hash_safe(values, digits=10, guard=5e-13):
    """True if no float x in values is within guard of a rounding boundary of
    round(x, digits), i.e. x*10**digits is not within guard*10**digits of a half-integer."""
    unit = 10 ** digits
    lim = Fraction(guard) * unit
    half = Fraction(1, 2)
    for x in values:
        y = Fraction(x) * unit
        frac = y - math.floor(y)
        if abs(frac - half) < lim:
            return False
    return True


def hash_quantities(obj):
    """The floats the library rounds when it hashes the object (None -> []): vertex /
    defining point coordinates; for each plane-like feature the unit normal components and
    the offset n.p; for each line-like feature the unit direction components; for a Line
    also the raw dv[0], dv[1], dv[0]*sv[1]-dv[1]*sv[0] that Line.__hash__ rounds."""
    if obj is None:
        return []
    obj = exact(obj)
    pts, lines, planes = features(obj)
    out = []
    for p in pts:
        out.extend(float(c) for c in p)
    for q, d in lines:
        ln = _sqrt(norm2(d))
        out.extend(float(c) / ln for c in d)
    for q, n in planes:
        ln = _sqrt(norm2(n))
        out.extend(float(c) / ln for c in n)
        out.append(float(dot(n, q)) / ln)
    if obj[0] == 'Line':
        p, d = obj[1], obj[2]
        out.extend([float(d[0]), float(d[1]), float(d[0] * p[1] - d[1] * p[0])])
    return out


__all__ = (
    'KINDS', 'FLAT_KINDS', 'exact', 'check_object', 'contains', 'contains_obj', 'intersect',
    'intersect_flat', 'intersect_generic', 'hrep', 'satisfies', 'enumerate_vertices',
    'from_vertices', 'canonical', 'same_set', 'vertices', 'order_cyclic', 'convex_hull',
    'affine_rank', 'centroid', 'length2', 'length_float', 'perimeter_float', 'area2_polygon',
    'area_float', 'volume', 'surface_area_float', 'edge_length_sum_float', 'distance2',
    'cos2_angle', 'to_number', 'to_lib', 'from_lib', 'matches', 'features', 'margin_ok',
    'hash_safe', 'hash_quantities',
)
