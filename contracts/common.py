"""Shared contract vocabulary: symbolic/concrete operand builders (the type
invariants of the inputs) and the *exact* contracts of the tolerance
predicates, used as stubs by every caller (DESIGN section 4).

The exact contract of a tolerance predicate P testing a quantity q is
    requires adm(q) := q = 0  or  |q| >= 4*eps*scale      (admission, logged)
    ensures  result <=> q = 0
It is derived from the tolerance contract of the real predicate
    |q| <= eps/1000*scale => True,   |q| >= 4*eps*scale => False
which is itself proved on the real body with a symbolic eps (props/C19, C05,
C08).
"""
from fractions import Fraction

import z3

from g3dvc import sym as S
from g3dvc import spec as SP
from g3dvc.engine import load_repo
from g3dvc.sym import Sym, SymBool, F, And, Or, Not, Implies, Iff

EPS0 = Fraction(1, 10 ** 10)
ADM = 4  # margin factor of the admission predicate


def G():
    return load_repo()


# ---------------------------------------------------------------------------
# operand builders (work in symbolic and in concrete mode)
# ---------------------------------------------------------------------------

_REAL_ATTRS = {}
_REAL_NONE = {}


def _real_attrs(kind):
    """attribute names of an instance built by the REAL constructor (one concrete sample per process)"""
    if kind not in _REAL_ATTRS:
        if S._ENGINE is not None:
            return None  # never run real constructors while stubs are installed (it would pollute the path); see warm_shape_cache
        g = G()
        P_, V_ = g.Point, g.Vector
        try:
            sample = {
                "Line": lambda: g.Line(P_(0, 0, 0), V_(1, 2, 2)),
                "Plane": lambda: g.Plane(P_(0, 0, 0), V_(2, 1, -2)),
                "Segment": lambda: g.Segment(P_(0, 0, 0), P_(2, 4, 4)),
                "HalfLine": lambda: g.HalfLine(P_(0, 0, 0), V_(1, 2, 2)),
                "ConvexPolygon": lambda: g.ConvexPolygon((P_(0, 0, 0), P_(4, 0, 0), P_(4, 4, 0), P_(0, 4, 0))),
            }[kind]()
            _REAL_ATTRS[kind] = set(vars(sample))
            # private attributes that a freshly constructed instance holds as None are lazily filled caches in their initial state
            _REAL_NONE[kind] = set(k for k, v in vars(sample).items() if k.startswith("_") and v is None)
        except Exception:
            _REAL_ATTRS[kind] = None
    return _REAL_ATTRS[kind]


def warm_shape_cache():
    """called once in the parent process, before any stub is installed"""
    for kind in ("Line", "Plane", "Segment", "HalfLine", "ConvexPolygon"):
        _real_attrs(kind)


HISTORY = ("factory results (Vector.zero(), unit vectors, origin(), x_axis(), xy_plane() ...) used as constructor arguments of lines, planes, segments, half lines, polygons and a parallelepiped, each of which is then moved; "
           "intersection / distance / angle / parallel / orthogonal / in / == / hash / length / area / volume queries on them; -Plane; set_eps and set_sig_figures changed and set back to their defaults")


def benign_history():
    """Every property is quantified over histories: before any obligation is generated the process runs this legitimate use of the public API once
    (natively, before stubs are installed), so hidden state that survives a call - cached singletons, class-level attributes, memoised results - is in
    the state a real program would leave it in.  An exception in here is not attributed to any property."""
    g = G()
    import importlib
    try:
        V_, P_ = g.Vector, g.Point
        mv = V_(2, -1, 2)
        objs = []
        for i, mk in enumerate((g.Vector.zero, g.x_unit_vector, g.y_unit_vector, g.z_unit_vector)):
            ln = g.Line(mk(), V_(1, 2, 2))
            ln.move(mv)
            objs.append(ln)
            ln2 = g.Line(P_(1, 1, 1), mk() if i else V_(0, 1, 0))
            ln2.move(mv)
            objs.append(ln2)
        o = g.origin()
        o.move(mv)
        for mk in (g.x_axis, g.y_axis, g.z_axis, g.xy_plane, g.yz_plane, g.xz_plane):
            t = mk()
            t.move(mv)
            objs.append(t)
        pl = g.Plane(g.origin(), g.z_unit_vector())
        pl.move(V_(0, 0, 3))
        npl = -pl
        npl.move(V_(1, 0, 0))
        objs += [pl, npl]
        sg = g.Segment(g.origin(), g.x_unit_vector())
        sg.move(mv)
        hl = g.HalfLine(g.origin(), g.y_unit_vector())
        hl.move(mv)
        pg = g.ConvexPolygon((g.origin(), P_(1, 0, 0), P_(0, 1, 0)))
        pg.move(mv)
        box = g.Parallelepiped(g.origin(), g.x_unit_vector(), g.y_unit_vector(), g.z_unit_vector())
        box.move(mv)
        objs += [sg, hl, pg, box]
        for a in objs:
            for b in objs:
                try:
                    g.intersection(a, b)
                    hash(a)
                    a == b
                except Exception:
                    pass
                for fn in (g.distance, g.angle, g.parallel, g.orthogonal):
                    try:
                        fn(a, b)
                    except Exception:
                        pass
            try:
                P_(2, -1, 2) in a
            except Exception:
                pass
        for a in (sg, pg, box):
            for q in ("length", "area", "volume"):
                if hasattr(a, q):
                    getattr(a, q)()
        const = importlib.import_module("Geometry3D.utils.constant")
        e0, s0 = const.get_eps(), const.get_sig_figures()
        const.set_eps(1e-6)
        const.set_sig_figures(6)
        g.intersection(pl, box)
        const.set_eps(e0)
        const.set_sig_figures(s0)
    except Exception:
        pass


def shape_guard(vc, kind, obj):
    """the operand builders below set the attributes by hand (so that the invariant, not the constructor, is the precondition).  If the
    real constructor now gives its instances other attributes (e.g. a new cached field), the builder is outdated: that is a limit of this
    tool, reported as undecided - it must not surface as a 'does not raise' violation of the code under verification."""
    if not getattr(vc, "symbolic", False):
        return
    real = _real_attrs(kind)
    for k in _REAL_NONE.get(kind, ()):  # a not-yet-filled private cache: the state right after construction is known without running the constructor
        if k not in vars(obj):
            setattr(obj, k, None)
    mine = set(k for k in vars(obj) if not k.startswith("_tok"))
    if real is not None and real != mine:
        from g3dvc.engine import EngineLimit
        raise EngineLimit("operand builder for %s is outdated: real instances have attributes %s, the builder sets %s" % (kind, sorted(real), sorted(mine)))


def V(vc, name):
    g = G()
    return g.Vector(vc.real(name + ".x"), vc.real(name + ".y"), vc.real(name + ".z"))


def P(vc, name):
    g = G()
    return g.Point(vc.real(name + ".x"), vc.real(name + ".y"), vc.real(name + ".z"))


def _random_unit(vc, name):
    """in random concrete search, draw an exactly unit rational vector for the three reals name.x/.y/.z"""
    rng = getattr(vc, "rng", None)
    if rng is not None and (name + ".x") not in vc.values:
        from g3dvc.engine import UNIT_VECTORS
        u = rng.choice(UNIT_VECTORS)
        for k, c in zip("xyz", u):
            vc.values[name + "." + k] = Fraction(c)


def _concrete(vc, build):
    """concrete mode (replay, random search, bounded): operands are built by the REAL constructors, so that they carry whatever
    cached state the current code gives them; an input the constructor rejects is outside the precondition"""
    from g3dvc.engine import PreconditionFailed
    try:
        return build()
    except Exception as e:
        raise PreconditionFailed("constructor rejected the input: %r" % (e,))


def line(vc, name):
    """a valid Line: direction not zero (invariant established by Line.__init__, C15)"""
    g = G()
    if not vc.symbolic:
        return _concrete(vc, lambda: g.Line(g.Point(*SP.vec(V(vc, name + ".sv"))), V(vc, name + ".dv")))
    l = g.Line.__new__(g.Line)
    l.sv = V(vc, name + ".sv")
    l.dv = V(vc, name + ".dv")
    vc.assume(SP.vnonzero(SP.vec(l.dv)), "invariant Line: dv != 0")
    shape_guard(vc, "Line", l)
    return l


def plane(vc, name):
    """a valid Plane: unit normal (invariant established by Plane._init_pn, C17)"""
    g = G()
    if not vc.symbolic:
        pt = P(vc, name + ".p")
        _random_unit(vc, name + ".n")
        return _concrete(vc, lambda: g.Plane(pt, V(vc, name + ".n")))
    p = g.Plane.__new__(g.Plane)
    p.p = P(vc, name + ".p")
    _random_unit(vc, name + ".n")
    p.n = V(vc, name + ".n")
    vc.assume(SP.eq(SP.norm2(SP.vec(p.n)), 1), "invariant Plane: |n| = 1")
    shape_guard(vc, "Plane", p)
    return p


def segment(vc, name):
    """a valid Segment: end points differ, cached carrier line = Line(start, end)"""
    g = G()
    if not vc.symbolic:
        return _concrete(vc, lambda: g.Segment(P(vc, name + ".a"), P(vc, name + ".b")))
    s = g.Segment.__new__(g.Segment)
    s.start_point = P(vc, name + ".a")
    s.end_point = P(vc, name + ".b")
    a, b = SP.vec(s.start_point), SP.vec(s.end_point)
    vc.assume(Not(SP.veq(a, b)), "invariant Segment: start != end")
    l = g.Line.__new__(g.Line)
    l.sv = g.Vector(*a)
    l.dv = g.Vector(*SP.sub(b, a))
    s.line = l
    shape_guard(vc, "Segment", s)
    return s


def halfline(vc, name):
    """a valid HalfLine: vector not zero, cached carrier line = Line(point, vector)"""
    g = G()
    if not vc.symbolic:
        return _concrete(vc, lambda: g.HalfLine(P(vc, name + ".p"), V(vc, name + ".v")))
    h = g.HalfLine.__new__(g.HalfLine)
    h.point = P(vc, name + ".p")
    h.vector = V(vc, name + ".v")
    vc.assume(SP.vnonzero(SP.vec(h.vector)), "invariant HalfLine: vector != 0")
    vc.admit(SP.gez(SP.norm2(SP.vec(h.vector)) - (ADM * EPS0) ** 2), "HalfLine invariant: |vector| >= 4 eps (the constructor rejects |vector| < eps)")
    l = g.Line.__new__(g.Line)
    l.sv = g.Vector(*SP.vec(h.point))
    l.dv = g.Vector(*SP.vec(h.vector))
    h.line = l
    shape_guard(vc, "HalfLine", h)
    return h


def witness(vc, name="x"):
    """a fresh point (x, y, z) as a 3-tuple: the universally quantified witness"""
    return (vc.real(name + ".x"), vc.real(name + ".y"), vc.real(name + ".z"))


# ---------------------------------------------------------------------------
# exact contracts of the tolerance predicates (stubs)
# ---------------------------------------------------------------------------

def _adm_small(vc, q, what, add=True):
    q = Sym(q)
    if q.c is not None:
        return
    vc.admit(Or(q == 0, q >= ADM * EPS0, q <= -ADM * EPS0), what, add=add)


def x_null(f):
    vc = S.engine()
    vc.hit("null")
    f = Sym(f)
    _adm_small(vc, f, "null(f): f = 0 or |f| >= 4 eps")
    return SymBool(f == 0)


def x_vector_eq(self, other):
    vc = S.engine()
    vc.hit("Vector.__eq__")
    ds = [Sym(self._v[i]) - Sym(other._v[i]) for i in range(3)]
    for d in ds:
        _adm_small(vc, d, "Vector.__eq__: each coordinate difference is 0 or >= 4 eps")
    return SymBool(And(*[d == 0 for d in ds]))


def x_point_eq(self, other):
    g = G()
    vc = S.engine()
    vc.hit("Point.__eq__")
    if not isinstance(other, g.Point):
        return False
    ds = [Sym(a) - Sym(b) for a, b in zip(SP.vec(self), SP.vec(other))]
    for d in ds:
        _adm_small(vc, d, "Point.__eq__: each coordinate difference is 0 or >= 4 eps")
    return SymBool(And(*[d == 0 for d in ds]))


def x_parallel(self, other):
    """Vector.parallel: True iff cross product is zero (zero vectors are parallel to everything)"""
    vc = S.engine()
    vc.hit("Vector.parallel")
    c = SP.cross(SP.vec(self), SP.vec(other))
    vc.admit(True, "Vector.parallel: u x v = 0 or |u x v|^2 >= 8 eps |u|^2 |v| (and u, v, u-v zero or >= 4 eps in a coordinate)", add=False)
    return SymBool(And(*[Sym(a) == 0 for a in c]))


def x_orthogonal(self, other):
    vc = S.engine()
    vc.hit("Vector.orthogonal")
    d = Sym(SP.dot(SP.vec(self), SP.vec(other)))
    _adm_small(vc, d, "Vector.orthogonal: u.v = 0 or |u.v| >= 4 eps")
    return SymBool(d == 0)


def x_line_contains_point(self, other):
    g = G()
    vc = S.engine()
    if isinstance(other, g.Point):
        vc.hit("Line.__contains__")
        vc.admit(True, "Point in Line: exactly on the line or off it by the parallel-test margin", add=False)
        return SymBool(SP.on_line(SP.vec(other), SP.vec(self.sv), SP.vec(self.dv)))
    return ORIG["Line.__contains__"](self, other)


def x_plane_contains_point(self, other):
    g = G()
    vc = S.engine()
    if isinstance(other, g.Point):
        vc.hit("Plane.__contains__")
        q = Sym(SP.dot(SP.sub(SP.vec(other), SP.vec(self.p)), SP.vec(self.n)))
        _adm_small(vc, q, "Point in Plane: n.(x-p) = 0 or |n.(x-p)| >= 4 eps")
        return SymBool(q == 0)
    return ORIG["Plane.__contains__"](self, other)


ORIG = {}


def remember_originals():
    g = G()
    ORIG.setdefault("Line.__contains__", g.Line.__dict__["__contains__"])
    ORIG.setdefault("Plane.__contains__", g.Plane.__dict__["__contains__"])
    ORIG.setdefault("Segment.__contains__", g.Segment.__dict__["__contains__"])
    ORIG.setdefault("HalfLine.__contains__", g.HalfLine.__dict__["__contains__"])


T_NULL = "Geometry3D.utils.solver:null"
T_VEQ = "Geometry3D.utils.vector:Vector.__eq__"
T_PEQ = "Geometry3D.geometry.point:Point.__eq__"
T_PAR = "Geometry3D.utils.vector:Vector.parallel"
T_ORT = "Geometry3D.utils.vector:Vector.orthogonal"
T_LINE_IN = "Geometry3D.geometry.line:Line.__contains__"
T_PLANE_IN = "Geometry3D.geometry.plane:Plane.__contains__"

EXACT_VECTOR_PREDICATES = [(T_NULL, x_null), (T_VEQ, x_vector_eq), (T_PEQ, x_point_eq), (T_PAR, x_parallel), (T_ORT, x_orthogonal)]


# ---------------------------------------------------------------------------
# rank by minors (spec of the number of free parameters of a linear system)
# ---------------------------------------------------------------------------

def _minors(A, k):
    import itertools
    R, C = len(A), len(A[0])
    out = []
    for rows in itertools.combinations(range(R), k):
        for cols in itertools.combinations(range(C), k):
            out.append(_det([[A[i][j] for j in cols] for i in rows]))
    return out


def _det(M):
    n = len(M)
    if n == 1:
        return M[0][0]
    if n == 2:
        return M[0][0] * M[1][1] - M[0][1] * M[1][0]
    tot = 0
    for j in range(n):
        sub = [[M[i][c] for c in range(n) if c != j] for i in range(1, n)]
        tot = tot + ((-1) ** j) * M[0][j] * _det(sub)
    return tot


def rank_is(A, r):
    """formula: the coefficient matrix A has rank exactly r (by minors)"""
    R, C = len(A), len(A[0])
    if r < 0 or r > min(R, C):
        return False
    lo = True if r == 0 else Or(*[Not(SP.eqz(m)) for m in _minors(A, r)])
    hi = True if r == min(R, C) else And(*[SP.eqz(m) for m in _minors(A, r + 1)])
    return And(lo, hi)


# ---------------------------------------------------------------------------
# contract of solve() (established by props/C16) as a stub for its callers
# ---------------------------------------------------------------------------

def _sys_holds(m0, x):
    n = len(m0[0]) - 1
    return And(*[SP.eq(sum(m0[i][j] * x[j] for j in range(n)), m0[i][n]) for i in range(len(m0))])


def free_values_appear(x, free):
    """the given free values appear, in order, among the components of x"""
    import itertools
    if not free:
        return True
    return Or(*[And(*[SP.eq(x[j], f) for j, f in zip(idx, free)]) for idx in itertools.combinations(range(len(x)), len(free))])


class SolutionStub(object):
    """what a caller may assume about the object returned by solve(m):
    truthy <=> the system is consistent; a call with k values requires a
    consistent system with unknowns - rank(A) = k and returns a tuple that
    satisfies every equation and contains the given values in order."""

    def __init__(self, vc, m0):
        self.vc, self.m0 = vc, m0
        self.N = len(m0[0]) - 1
        self.c = vc.fresh("consistent", "bool")
        self.solutions = []
        # truthy => some solution exists (skolem witness); falsy => none does (universal clause, see no_solution_at)
        self.x0 = [vc.fresh("sol0") for _ in range(self.N)]
        vc.assume(Implies(self.c, _sys_holds(self.m0, self.x0)), "solve contract: truthy => a solution exists")
        vc.solve_stubs = getattr(vc, "solve_stubs", []) + [self]

    def __bool__(self):
        return self.vc.branch(self.c)

    __nonzero__ = __bool__

    def __call__(self, *v):
        vc = self.vc
        A = [r[: self.N] for r in self.m0]
        vc.oblige("solve contract: solution() is only called on a consistent system", self.c)
        vc.oblige("solve contract: %d free values given = unknowns - rank(A)" % len(v), rank_is(A, self.N - len(v)))
        x = [vc.fresh("sol") for _ in range(self.N)]
        vc.assume(_sys_holds(self.m0, x), "solve contract: the result satisfies every equation")
        vc.assume(free_values_appear(x, [Sym(f) for f in v]), "solve contract: free values appear in order")
        self.solutions.append(x)
        return tuple(x)

    def no_solution_at(self, w):
        """instance of the universal clause: falsy => w is not a solution"""
        return Implies(Not(self.c), Not(_sys_holds(self.m0, w)))

    def consistent_at(self, w):
        """truthy <= w solves the system"""
        return Implies(_sys_holds(self.m0, w), self.c)


def x_solve(matrix):
    vc = S.engine()
    vc.hit("solve")
    m0 = [[Sym(v) for v in row] for row in matrix]
    st = SolutionStub(vc, m0)
    # instances of the clause "a solution exists => truthy": the zero vector, and whatever the harness supplies
    vc.assume(st.consistent_at([Sym(0)] * st.N), "solve contract instantiated at the zero vector")
    if "solve" in vc.on_call:
        vc.on_call["solve"](st)
    return st


T_SOLVE = "Geometry3D.utils.solver:solve"


# ---------------------------------------------------------------------------
# vector-level callee contracts carrying the consequences callers need
# ---------------------------------------------------------------------------

def x_normalized(self):
    """Vector.normalized: requires v != 0 (else ZeroDivisionError);
    ensures result = k*v with k > 0 and k^2 |v|^2 = 1 (proved in props/C18)"""
    g = G()
    vc = S.engine()
    vc.hit("Vector.normalized")
    v = SP.vec(self)
    if "Vector.normalized" in vc.on_call:
        vc.on_call["Vector.normalized"](self)
    n2 = SP.norm2(v)
    z = F(SP.vzero(v))
    if (z if isinstance(z, bool) else vc.branch(z)):
        raise ZeroDivisionError("float division by zero (normalized zero vector)")
    key = ("normalized",) + tuple(S.term(c).get_id() for c in v)
    k = vc.sqrt_cache.get(key)  # functional consistency: the same vector is scaled by the same factor
    if k is None and vc.log.get("normalized"):
        # a vector that is provably of unit length already (e.g. the stored normal of a plane, or its negation) is returned unchanged (k = 1)
        from g3dvc import smt as _smt
        n2t = S.term(n2)
        if _smt.prove(n2t == 1, vc.facts, 1500, portfolio=False)["status"] == "proved":
            k = Sym(1)
            vc.sqrt_cache[key] = k
    if k is None:
        k = vc.fresh("k")
        vc.assume(k > 0, "normalized contract: k > 0")
        vc.assume(k * k * n2 == 1, "normalized contract: unit length")
        vc.sqrt_cache[key] = k
    r = g.Vector(*[k * c for c in v])
    vc.record("normalized", (k, v, SP.vec(r)))
    return r


def x_normalized_nonzero(self):
    """Vector.normalized for a vector that is non-zero by the caller's invariant (no zero branch): k*v, k > 0, unit length"""
    g = G()
    vc = S.engine()
    vc.hit("Vector.normalized")
    v = SP.vec(self)
    k = vc.fresh("k")
    vc.assume(k > 0, "normalized contract: k > 0")
    vc.assume(k * k * SP.norm2(v) == 1, "normalized contract: unit length")
    return g.Vector(*[k * c for c in v])


def x_length(self):
    """Vector.length: r >= 0, r^2 = v.v (proved in props/C18)"""
    vc = S.engine()
    vc.hit("Vector.length")
    return vc.sqrt(Sym(SP.norm2(SP.vec(self))), complex_on_negative=True)


T_NORMALIZED = "Geometry3D.utils.vector:Vector.normalized"
T_LENGTH = "Geometry3D.utils.vector:Vector.length"


def x_inter_line_plane(l, p):
    """COORD-world contract of inter_line_plane (proved in props/C01):
    None  => l parallel to p and not in it;  Line => l itself, l in p;
    Point => l not parallel to p, the point is sv + mu*dv and lies in p"""
    g = G()
    vc = S.engine()
    vc.hit("inter_line_plane")
    if "inter_line_plane" in vc.on_call:
        vc.on_call["inter_line_plane"](l, p)
    sv, dv, pp, n = SP.vec(l.sv), SP.vec(l.dv), SP.vec(p.p), SP.vec(p.n)
    dn = SP.dot(dv, n)
    k = vc.choose(3, "inter_line_plane")
    if k == 0:
        vc.assume(And(dn == 0, Not(SP.on_plane(sv, pp, n))), "inter_line_plane contract: None")
        vc.prune()
        return None
    if k == 1:
        vc.assume(And(dn == 0, SP.on_plane(sv, pp, n)), "inter_line_plane contract: Line")
        vc.prune()
        return l
    mu = vc.fresh("mu")
    q = SP.add(sv, SP.scale(mu, dv))
    vc.assume(Not(dn == 0), "inter_line_plane contract: Point => not parallel")
    vc.assume(SP.on_plane(q, pp, n), "inter_line_plane contract: Point on the plane")
    vc.record("inter_line_plane", (mu, q))
    return g.Point(*q)


T_ILP = "Geometry3D.calc.intersection:inter_line_plane"


def x_segment_contains_point(self, other):
    g = G()
    if isinstance(other, g.Point):
        vc = S.engine()
        vc.hit("Segment.__contains__")
        vc.admit(True, "Point in Segment: on the carrier exactly or off by the parallel-test margin; relative parameter in [0,1] exactly or outside by > 4 eps; |x-start| = 0 or >= 4 eps", add=False)
        return SymBool(SP.on_segment(SP.vec(other), SP.vec(self.start_point), SP.vec(self.end_point)))
    return ORIG["Segment.__contains__"](self, other)


def x_halfline_contains_point(self, other):
    g = G()
    if isinstance(other, g.Point):
        vc = S.engine()
        vc.hit("HalfLine.__contains__")
        vc.admit(True, "Point in HalfLine: on the carrier exactly or off by the parallel-test margin; (x-p).v >= 0 exactly or <= -4 eps", add=False)
        return SymBool(SP.on_halfline(SP.vec(other), SP.vec(self.point), SP.vec(self.vector)))
    return ORIG["HalfLine.__contains__"](self, other)


def x_point_hash(self):
    """A4: sets of symbolic points deduplicate by == alone"""
    return 0


T_SEG_IN = "Geometry3D.geometry.segment:Segment.__contains__"
T_HL_IN = "Geometry3D.geometry.halfline:HalfLine.__contains__"
T_PHASH = "Geometry3D.geometry.point:Point.__hash__"


def flat_member(x, o):
    """denotation: the point x (3-tuple) belongs to the flat object o (None = empty set)"""
    g = G()
    if o is None:
        return False
    if isinstance(o, g.Point):
        return SP.veq(x, SP.vec(o))
    if isinstance(o, g.Segment):
        return SP.on_segment(x, SP.vec(o.start_point), SP.vec(o.end_point))
    if isinstance(o, g.HalfLine):
        return SP.on_halfline(x, SP.vec(o.point), SP.vec(o.vector))
    if isinstance(o, g.Line):
        return SP.on_line(x, SP.vec(o.sv), SP.vec(o.dv))
    if isinstance(o, g.Plane):
        return SP.on_plane(x, SP.vec(o.p), SP.vec(o.n))
    raise TypeError("no flat denotation for %r" % (type(o),))


# ---------------------------------------------------------------------------
# convex polygon / polyhedron operands (shape = number of vertices / faces)
# ---------------------------------------------------------------------------

def _random_polygon(vc, name, n):
    """in random concrete search: a convex lattice n-gon, counter-clockwise about its unit normal, in an oblique rational frame"""
    rng = getattr(vc, "rng", None)
    if rng is None or ("%s.p0.x" % name) in vc.values:
        return
    from g3dvc import catalogue as K
    from g3dvc import oracle as O
    cands = [pts for nm, pts in K.POLYGON_TEMPLATES if len(pts) == n]
    if not cands:
        return
    pts2 = rng.choice(cands)
    R = rng.choice(K.ROTATIONS)
    e1, e2 = K.mat_vec(R, (1, 0, 0)), K.mat_vec(R, (0, 1, 0))
    nrm = O.cross(e1, e2)
    org = tuple(Fraction(rng.randint(-6, 6)) for _ in range(3))
    pts3 = [O.add(org, O.add(O.scale(Fraction(y), e1), O.scale(Fraction(z), e2))) for y, z in pts2]
    for i, q in enumerate(pts3):
        for k, c in zip("xyz", q):
            vc.values["%s.p%d.%s" % (name, i, k)] = Fraction(c)
    for k, c in zip("xyz", nrm):
        vc.values["%s.n.%s" % (name, k)] = Fraction(c)
    base = rng.choice(pts3)
    for k, c in zip("xyz", base):
        vc.values["%s.plane_p.%s" % (name, k)] = Fraction(c)


def polygon(vc, name, n, convex=True):
    """a valid ConvexPolygon with n vertices: coplanar, unit normal, (optionally) strictly convex position
    counter-clockwise about the normal stated for ALL edge/vertex pairs, centre = vertex mean"""
    g = G()
    _random_polygon(vc, name, n)
    if not vc.symbolic:
        pts_c = [P(vc, "%s.p%d" % (name, i)) for i in range(n)]
        nv_c = SP.vec(V(vc, name + ".n"))
        _ = [vc.real(name + ".plane_p." + k) for k in "xyz"]
        pg_c = _concrete(vc, lambda: g.ConvexPolygon(tuple(pts_c)))
        if SP.dot(SP.vec(pg_c.plane.n), nv_c) < 0:  # keep the orientation the inputs describe (counter-clockwise about the given normal)
            pg_c = _concrete(vc, lambda: -pg_c)
        return pg_c
    pg = g.ConvexPolygon.__new__(g.ConvexPolygon)
    pts = [P(vc, "%s.p%d" % (name, i)) for i in range(n)]
    pl = g.Plane.__new__(g.Plane)
    _random_unit(vc, name + ".n")
    pl.n = V(vc, name + ".n")
    nv = SP.vec(pl.n)
    vc.assume(SP.eq(SP.norm2(nv), 1), "invariant Plane: |n| = 1")
    pl.p = P(vc, name + ".plane_p")
    pp = SP.vec(pl.p)
    for p in pts:
        vc.assume(SP.eqz(SP.dot(SP.sub(SP.vec(p), pp), nv)), "invariant ConvexPolygon: vertices lie in its plane")
    if convex:
        for i in range(n):
            a, b = SP.vec(pts[i]), SP.vec(pts[(i + 1) % n])
            for j in range(n):
                if j in (i, (i + 1) % n):
                    continue
                vc.assume(SP.gtz(SP.dot(nv, SP.cross(SP.sub(b, a), SP.sub(SP.vec(pts[j]), a)))), "invariant ConvexPolygon: strictly convex, counter-clockwise about the normal (all pairs)")
    pg.points = tuple(pts)
    pg.plane = pl
    cx = [sum(SP.vec(p)[k] for p in pts) / n for k in range(3)]
    pg.center_point = g.Point(*cx)
    shape_guard(vc, "ConvexPolygon", pg)
    return pg


def polygon_member(x, pg):
    """denotation of a convex polygon: in its plane and on the inner side of every directed edge"""
    nv, pp = SP.vec(pg.plane.n), SP.vec(pg.plane.p)
    pts = [SP.vec(p) for p in pg.points]
    n = len(pts)
    conds = [SP.on_plane(x, pp, nv)]
    for i in range(n):
        a, b = pts[i], pts[(i + 1) % n]
        conds.append(SP.gez(SP.dot(nv, SP.cross(SP.sub(b, a), SP.sub(x, a)))))
    return And(*conds)


def polyhedron_faces(vc, name, F_):
    """an opaque-face ConvexPolyhedron: each face is known only through (centre point, outward unit normal)"""
    g = G()
    ph = g.ConvexPolyhedron.__new__(g.ConvexPolyhedron)
    faces = []
    for i in range(F_):
        f = g.ConvexPolygon.__new__(g.ConvexPolygon)
        f.center_point = P(vc, "%s.f%d.c" % (name, i))
        pl = g.Plane.__new__(g.Plane)
        _random_unit(vc, "%s.f%d.n" % (name, i))
        pl.n = V(vc, "%s.f%d.n" % (name, i))
        vc.assume(SP.eq(SP.norm2(SP.vec(pl.n)), 1), "invariant: unit face normal")
        pl.p = f.center_point
        f.plane = pl
        faces.append(f)
    ph.convex_polygons = faces
    return ph


def polyhedron_member(x, ph):
    """denotation of a convex polyhedron: not strictly outside any outward-oriented face"""
    return And(*[SP.lez(SP.dot(SP.sub(x, SP.vec(f.center_point)), SP.vec(f.plane.n))) for f in ph.convex_polygons])
