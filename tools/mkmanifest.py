#!/usr/bin/env python3
"""Regenerates MANIFEST.json from the props/*.py modules (their MANIFEST dicts)."""
import ast, json, os, sys
ROOT = os.path.dirname(os.path.dirname(os.path.abspath(__file__)))
props = [json.loads(l) for l in open(os.path.join(ROOT, "properties.jsonl"))]
NA = {}
na_path = os.path.join(ROOT, "tools", "not_applicable.json")
if os.path.exists(na_path):
    NA = json.load(open(na_path))

def module_meta(pid):
    p = os.path.join(ROOT, "props", pid + ".py")
    if not os.path.exists(p):
        return None
    tree = ast.parse(open(p).read())
    meta = {}
    for node in tree.body:
        if isinstance(node, ast.Assign) and len(node.targets) == 1 and isinstance(node.targets[0], ast.Name) and node.targets[0].id in ("MANIFEST", "LEVEL"):
            try:
                meta[node.targets[0].id] = ast.literal_eval(node.value)
            except Exception:
                src = compile(ast.Expression(node.value), p, "eval")
                meta[node.targets[0].id] = eval(src, {"dict": dict})
    return meta if "MANIFEST" in meta else None

checks, na, served = [], [], []
for pr in props:
    pid = pr["id"]
    meta = module_meta(pid)
    if meta is None or pid in NA:
        na.append({"property_id": pid, "reason": NA.get(pid, "check not built yet in this round (machinery under construction; see DESIGN.md section 16)")})
        continue
    m = meta["MANIFEST"]
    served.append(pid)
    checks.append({
        "property_id": pid,
        "quick_cmd": "./check %s --tier quick" % pid,
        "thorough_cmd": "./check %s --tier thorough" % pid,
        "evidence_file": "evidence/%s.json" % pid,
        "replay_cmd_template": "./check %s --replay {path}" % pid,
        "engine": "g3dvc",
        "level_claimed": {"category": meta.get("LEVEL", "proof"), "text": m["text"], "design_ref": m.get("design_ref", "DESIGN.md section 9")},
        "level_note": m["note"],
        "technique": m.get("technique", "contract-based deductive verification of the real Python functions (symbolic execution on z3 reals, z3/cvc5 back ends)"),
    })
man = {
    "version": 1,
    "setup_cmd": "./check --setup",
    "hooks": {"guard": "GOUMINGHAO_GEOMETRY3D_VERIF",
              "enable": "no hooks: the verifier imports /repo's working tree unmodified (PYTHONPATH=/repo) and rebinds names at run time only, inside its own processes",
              "baseline_off_cmd": "cd /repo && /venv/bin/python -m pytest -ra -q -p no:cacheprovider --timeout=900 --continue-on-collection-errors",
              "source_commits": [], "add_only": True},
    "engines": [{"name": "g3dvc", "path": "g3dvc/", "serves_properties": served,
                 "kind_free_text": "contract verifier for the real Python functions: CPython executes the function objects of /repo on symbolic reals (z3 terms), callee contracts are installed as stubs, every ensures/raises/frame clause on every feasible path is a validity query for z3 5.1 / cvc5 1.0.3 / z3 4.8.12; counter-models are replayed natively; a labelled bounded stand-in evaluates the same contracts on catalogue inputs"}],
    "checks": checks,
    "not_applicable": na,
    "notes": "Fix commits in /repo are listed in known_findings.json (fixed entries suppress nothing). See DESIGN.md.",
}
json.dump(man, open(os.path.join(ROOT, "MANIFEST.json"), "w"), indent=1)
print("checks:", served, "not_applicable:", [x["property_id"] for x in na])
