"""Symbolic reals for executing the real Geometry3D code under CPython.

`Sym` wraps a z3 real term and implements Python's numeric protocol; every
comparison returns a `SymBool`, and `bool(SymBool)` asks the active `Engine`
(g3dvc.engine) which way to go.  Everything that is not a number is executed by
CPython itself.

Semantics assumed (listed in every evidence file as A1/A2): int, float, Fraction
and Decimal values are real numbers; a Python float literal that meets a Sym is
lifted to its exact rational value; true division by a symbolic value forks on
`den == 0` (raising ZeroDivisionError like Python) and otherwise introduces a
fresh q with q*den == num; `x ** 0.5` / math.sqrt fork on a negative radicand
and otherwise introduce s >= 0 with s*s == x (cached per term so the same
length computed twice is the same value).
"""
import math
from decimal import Decimal
from fractions import Fraction

import z3

_ENGINE = None  # the active engine (set by Engine.run_path)


def engine():
    if _ENGINE is None:
        raise RuntimeError("symbolic value used outside an engine path")
    return _ENGINE


def set_engine(e):
    global _ENGINE
    _ENGINE = e


class SymComplexResult(ArithmeticError):
    """Python would have produced a complex number (negative ** 0.5)."""


def _const_of(x):
    """Exact Fraction of a concrete Python number, else None."""
    if isinstance(x, bool):
        return Fraction(int(x))
    if isinstance(x, int):
        return Fraction(x)
    if isinstance(x, float):
        if x != x or x in (math.inf, -math.inf):
            raise ValueError("non-finite float met a symbolic value")
        return Fraction(x)
    if isinstance(x, Fraction):
        return x
    if isinstance(x, Decimal):
        return Fraction(x)
    return None


def _rv(fr):
    return z3.RealVal(str(fr))


class Sym(object):
    """A real number: either a known constant (self.c) or a z3 term (self.t)."""

    __slots__ = ("_t", "c")

    def __init__(self, v=0):
        if isinstance(v, Sym):
            self._t, self.c = v._t, v.c
            return
        c = _const_of(v)
        if c is not None:
            self._t, self.c = None, c
        elif isinstance(v, z3.ExprRef):
            if z3.is_rational_value(v):
                self._t, self.c = None, Fraction(v.numerator_as_long(), v.denominator_as_long())
            elif z3.is_int_value(v):
                self._t, self.c = None, Fraction(v.as_long())
            else:
                if z3.is_int(v):
                    v = z3.ToReal(v)
                self._t, self.c = v, None
        else:
            raise TypeError("cannot make a symbolic real from %r" % (type(v),))

    # -- access ----------------------------------------------------------
    @property
    def t(self):
        if self._t is None:
            self._t = _rv(self.c)
        return self._t

    def is_const(self):
        return self.c is not None

    @staticmethod
    def lift(x):
        if isinstance(x, Sym):
            return x
        c = _const_of(x)
        if c is None:
            return None
        return Sym(c)

    # -- arithmetic ------------------------------------------------------
    def __add__(self, o):
        o = Sym.lift(o)
        if o is None:
            return NotImplemented
        if self.c is not None and o.c is not None:
            return Sym(self.c + o.c)
        if self.c == 0:
            return o
        if o.c == 0:
            return self
        return Sym(self.t + o.t)

    __radd__ = __add__

    def __sub__(self, o):
        o = Sym.lift(o)
        if o is None:
            return NotImplemented
        if self.c is not None and o.c is not None:
            return Sym(self.c - o.c)
        if o.c == 0:
            return self
        if self.c == 0:
            return -o
        return Sym(self.t - o.t)

    def __rsub__(self, o):
        o = Sym.lift(o)
        if o is None:
            return NotImplemented
        return o.__sub__(self)

    def __mul__(self, o):
        o = Sym.lift(o)
        if o is None:
            return NotImplemented
        if self.c is not None and o.c is not None:
            return Sym(self.c * o.c)
        for a, b in ((self, o), (o, self)):
            if a.c is not None:
                if a.c == 0:
                    return Sym(0)
                if a.c == 1:
                    return b
                if a.c == -1:
                    return -b
        return Sym(self.t * o.t)

    __rmul__ = __mul__

    def __neg__(self):
        if self.c is not None:
            return Sym(-self.c)
        return Sym(-self.t)

    def __pos__(self):
        return self

    def __abs__(self):
        if self.c is not None:
            return Sym(abs(self.c))
        return Sym(z3.If(self.t >= 0, self.t, -self.t))

    def __truediv__(self, o):
        o = Sym.lift(o)
        if o is None:
            return NotImplemented
        return engine().divide(self, o)

    def __rtruediv__(self, o):
        o = Sym.lift(o)
        if o is None:
            return NotImplemented
        return engine().divide(o, self)

    def __pow__(self, e):
        if isinstance(e, Sym):
            if e.c is None:
                raise TypeError("symbolic exponent")
            e = e.c
        ce = _const_of(e)
        if ce is None:
            return NotImplemented
        if ce == Fraction(1, 2):
            return engine().sqrt(self, complex_on_negative=True)
        if ce.denominator == 1 and ce >= 0:
            n = int(ce)
            r = Sym(1)
            for _ in range(n):
                r = r * self
            return r
        if ce.denominator == 1 and ce < 0:
            return Sym(1) / (self ** (-ce))
        raise TypeError("unsupported symbolic power %r" % (e,))

    def __rpow__(self, base):
        if self.c is not None:
            return Sym(base) ** self.c
        raise TypeError("symbolic exponent")

    # -- comparisons -----------------------------------------------------
    def _cmp(self, o, op):
        o = Sym.lift(o)
        if o is None:
            return NotImplemented
        if self.c is not None and o.c is not None:
            return SymBool(op(self.c, o.c))
        return SymBool(op(self.t, o.t))

    def __lt__(self, o):
        return self._cmp(o, lambda a, b: a < b)

    def __le__(self, o):
        return self._cmp(o, lambda a, b: a <= b)

    def __gt__(self, o):
        return self._cmp(o, lambda a, b: a > b)

    def __ge__(self, o):
        return self._cmp(o, lambda a, b: a >= b)

    def __eq__(self, o):
        r = self._cmp(o, lambda a, b: a == b)
        if r is NotImplemented:
            return False
        return r

    def __ne__(self, o):
        r = self._cmp(o, lambda a, b: a != b)
        if r is NotImplemented:
            return True
        return r

    def __hash__(self):
        # sets / dicts of symbolic numbers deduplicate by == alone (assumption A4)
        if self.c is not None:
            return hash(self.c)
        return 0

    def __bool__(self):
        return bool(self != 0)

    # -- conversions -----------------------------------------------------
    def __float__(self):
        if self.c is not None:
            return float(self.c)
        raise TypeError("float() of a symbolic real (the harness rebinds float in the library modules)")

    def __round__(self, k=None):
        return engine().round_(self, k)

    def __format__(self, spec):
        if self.c is not None:
            try:
                return format(float(self.c), spec)
            except Exception:
                return str(self.c)
        return "<sym>"

    def __repr__(self):
        return "Sym(%s)" % (self.c if self.c is not None else "<term>")

    def __deepcopy__(self, memo):
        return self

    def __copy__(self):
        return self


class SymBool(object):
    """Result of a symbolic comparison.  bool() forks the path."""

    __slots__ = ("e",)

    def __init__(self, e):
        if isinstance(e, SymBool):
            e = e.e
        self.e = e

    def __bool__(self):
        if isinstance(self.e, bool):
            return self.e
        return engine().branch(self.e)

    def __invert__(self):
        if isinstance(self.e, bool):
            return SymBool(not self.e)
        return SymBool(z3.Not(self.e))

    def __and__(self, o):
        return SymBool(And(self, o))

    __rand__ = __and__

    def __or__(self, o):
        return SymBool(Or(self, o))

    __ror__ = __or__

    def __repr__(self):
        return "SymBool(%s)" % (self.e,)


# ---------------------------------------------------------------------------
# logic layer: works on z3 BoolRef / SymBool / Python bool alike, never forks
# ---------------------------------------------------------------------------

def F(x):
    """formula of x: z3 BoolRef or Python bool."""
    if isinstance(x, SymBool):
        return x.e
    if isinstance(x, (bool, z3.BoolRef)):
        return x
    if x is None:
        raise TypeError("None used as a formula")
    raise TypeError("not a formula: %r" % (type(x),))


def And(*xs):
    if len(xs) == 1 and isinstance(xs[0], (list, tuple)):
        xs = tuple(xs[0])
    out = []
    for x in xs:
        x = F(x)
        if x is True:
            continue
        if x is False:
            return False
        out.append(x)
    if not out:
        return True
    if len(out) == 1:
        return out[0]
    return z3.And(*out)


def Or(*xs):
    if len(xs) == 1 and isinstance(xs[0], (list, tuple)):
        xs = tuple(xs[0])
    out = []
    for x in xs:
        x = F(x)
        if x is False:
            continue
        if x is True:
            return True
        out.append(x)
    if not out:
        return False
    if len(out) == 1:
        return out[0]
    return z3.Or(*out)


def Not(x):
    x = F(x)
    if isinstance(x, bool):
        return not x
    return z3.Not(x)


def Implies(a, b):
    return Or(Not(a), b)


def Iff(a, b):
    a, b = F(a), F(b)
    if isinstance(a, bool):
        return b if a else Not(b)
    if isinstance(b, bool):
        return a if b else Not(a)
    return a == b


def term(x):
    """z3 real term of a Sym / number."""
    if isinstance(x, Sym):
        return x.t
    s = Sym.lift(x)
    if s is None:
        raise TypeError("not a number: %r" % (x,))
    return s.t
