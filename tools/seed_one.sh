#!/bin/sh
# tools/seed_one.sh <seed-id> <check>...   - one stored seeded change on a scratch copy of /repo's HEAD (never /repo itself), each check under a
# time limit (a change that breaks a proof can keep a group busy up to its own limit); prints exit status and number of VIOLATION lines per check
sid=$1; shift
scr=$(mktemp -d /tmp/seedrepo_XXXX)
git -C /repo archive HEAD | tar -x -C "$scr"
(cd "$scr" && git init -q && git apply /verif/seeded/"$sid"/patch.diff) || exit 9
for c in "$@"; do
  out=$(cd /verif && G3DVC_REPO=$scr G3DVC_NPROC=${G3DVC_NPROC:-7} G3DVC_EVIDENCE_DIR=/verif/work/evidence-of-changed-trees timeout ${SEED_TIMEOUT:-420} ./check "$c" --tier quick 2>&1)
  rc=$?
  echo "$sid $c exit=$rc violations=$(echo "$out" | grep -c '^VIOLATION')"
  echo "$out" | grep '^VIOLATION' | head -2 | cut -c1-300
done
rm -rf "$scr"
