"""g3dvc engine: explores every feasible path of a *harness* that calls the
real Geometry3D function objects on symbolic reals, with callee contracts
installed as stubs, and turns each `ensure` into a validity query.

A harness is a Python function h(vc).  The same harness text runs in two modes:

* symbolic (`Engine`): vc.real() gives fresh z3 reals, vc.assume() adds a
  precondition, vc.call() runs the real function and captures its outcome,
  vc.ensure() registers an obligation proved for the whole path condition;
* concrete (`ConcreteVC`): vc.real() gives numbers from a counter-model or a
  catalogue, no stubs are installed, vc.ensure() is evaluated natively -- this
  is the replay of counter-examples and the bounded stand-in.
"""
import copy as _copy
import importlib
import math
import os
import sys
import time
import traceback
import types
from fractions import Fraction

import z3

from . import smt
from . import sym as S
from .sym import Sym, SymBool, F, And, Or, Not, Implies, Iff


class Infeasible(BaseException):
    """current path condition is unsatisfiable"""


class PathLimit(BaseException):
    pass


class EngineLimit(BaseException):
    """the code did something on a symbolic value that the engine does not model (e.g. round()): the path is undecided"""


class Outcome(object):
    """result of vc.call: kind 'ret' (value) or 'exc' (exception instance)"""

    def __init__(self, kind, value):
        self.kind, self.value = kind, value

    @property
    def returned(self):
        return self.kind == "ret"

    def raised(self, *types_):
        return self.kind == "exc" and (not types_ or isinstance(self.value, types_))

    def __repr__(self):
        return "Outcome(%s, %r)" % (self.kind, self.value)


# ---------------------------------------------------------------------------
# loading the code under verification
# ---------------------------------------------------------------------------

def repo_root():
    return os.environ.get("G3DVC_REPO", "/repo")


def load_repo():
    """import Geometry3D from the current working tree of the repository"""
    root = repo_root()
    sys.dont_write_bytecode = True
    if root not in sys.path:
        sys.path.insert(0, root)
    import logging
    if sys.version_info < (3, 12) and not getattr(Fraction, "_g3dvc_format_shim", False):
        # the repository's interpreter is 3.12, where Fraction supports float format specs;
        # Point.__init__ formats its coordinates with {:.2f} for a debug log message
        _orig_format = Fraction.__format__

        def _fmt(self, spec):
            try:
                return _orig_format(self, spec)
            except (TypeError, ValueError):
                return format(float(self), spec)

        Fraction.__format__ = _fmt
        Fraction._g3dvc_format_shim = True
    g = importlib.import_module("Geometry3D")
    if os.path.realpath(os.path.dirname(os.path.dirname(g.__file__))) != os.path.realpath(root):
        raise RuntimeError("Geometry3D imported from %s, not from %s" % (g.__file__, root))
    logging.disable(logging.CRITICAL)
    return g


def g3d_modules():
    return [m for n, m in list(sys.modules.items()) if m is not None and (n == "Geometry3D" or n.startswith("Geometry3D."))]


def resolve(target):
    """'Geometry3D.utils.solver:Solution.__call__' -> (owner, attrname, object)"""
    modname, _, path = target.partition(":")
    mod = importlib.import_module(modname)
    owner = mod
    parts = path.split(".")
    for p in parts[:-1]:
        owner = getattr(owner, p)
    name = parts[-1]
    if isinstance(owner, type):
        obj = owner.__dict__[name]
    else:
        obj = getattr(owner, name)
    return owner, name, obj


class Rebinder(object):
    """Rebinds every binding of a function object in the loaded Geometry3D
    modules and class dictionaries (the library does `from .solver import
    solve`, so one function has several bindings)."""

    def __init__(self):
        self.undo = []
        self.hits = {}

    def rebind(self, target, new):
        owner, name, orig = resolve(target)
        raw = orig
        n = 0
        if isinstance(owner, type):
            self.undo.append((owner, name, orig, True))
            setattr(owner, name, new)
            n += 1
            # aliases inside the same class (e.g. __abs__ = length)
            for k, v in list(owner.__dict__.items()):
                if v is raw and k != name:
                    self.undo.append((owner, k, v, True))
                    setattr(owner, k, new)
                    n += 1
        else:
            for m in g3d_modules():
                for k, v in list(vars(m).items()):
                    if v is raw:
                        self.undo.append((m, k, v, True))
                        setattr(m, k, new)
                        n += 1
        if n == 0:
            raise RuntimeError("no binding of %s found" % target)
        return n

    def set_global(self, module_name, name, value):
        m = importlib.import_module(module_name)
        had = name in vars(m)
        self.undo.append((m, name, vars(m).get(name), had))
        setattr(m, name, value)

    def restore(self):
        for owner, name, old, had in reversed(self.undo):
            if had:
                setattr(owner, name, old)
            else:
                try:
                    delattr(owner, name)
                except AttributeError:
                    pass
        self.undo = []


# names rebound while proving (listed in the evidence) -----------------------

_HINT_CACHE = {}
_HINT_KEEP = []


def _rv(fr):
    return z3.RealVal(str(fr))


def _sym_float(x=0.0):
    if isinstance(x, Sym):
        return x
    return float(x)


_MATH_ORIG = {}


def _dispatch(name, symfn):
    orig = getattr(math, name)
    _MATH_ORIG.setdefault(name, orig)

    def wrapper(*a):
        if any(isinstance(x, Sym) for x in a):
            return symfn(*a)
        return _MATH_ORIG[name](*a)

    wrapper.__name__ = name
    return wrapper


LIB_FLOAT_MODULES = [
    "Geometry3D.geometry.point",
    "Geometry3D.utils.vector",
    "Geometry3D.calc.intersection",
    "Geometry3D.geometry.polygon",
    "Geometry3D.geometry.polyhedron",
]

REBOUND_NAMES = [
    "float in %s -> identity on symbolic reals" % ", ".join(LIB_FLOAT_MODULES),
    "math.sqrt -> symbolic square root (fork on negative radicand => ValueError)",
    "math.acos -> angle token theta with 0 <= theta <= pi, theta {<,=,>} pi/2 <=> cos {>,=,<} 0, theta = 0 <=> cos = 1, theta = pi <=> cos = -1, "
    "theta < 0.1 <=> cos > cos(0.1) (bracketed), antitone in the cosine; domain |cos| <= 1 is an obligation (ValueError otherwise)",
    "math.atan2 -> angle token t in (-pi, pi] with the sign of z, exact values on the axes, and tokens of the same open half-plane ordered by the sign of the cross product",
]


def install_numeric_patches(rb):
    for mn in LIB_FLOAT_MODULES:
        rb.set_global(mn, "float", _sym_float)

    def sym_sqrt(x):
        return S.engine().sqrt(Sym(x), complex_on_negative=False)

    def sym_acos(x):
        return S.engine().acos(Sym(x))

    def sym_atan2(z, y):
        return S.engine().atan2(Sym(z), Sym(y))

    for nm, fn in (("sqrt", sym_sqrt), ("acos", sym_acos), ("atan2", sym_atan2)):
        if nm not in _MATH_ORIG:
            _MATH_ORIG[nm] = getattr(math, nm)
        w = _dispatch(nm, fn)
        rb.undo.append((math, nm, _MATH_ORIG[nm], True))
        setattr(math, nm, w)


# ---------------------------------------------------------------------------
# the symbolic verification context
# ---------------------------------------------------------------------------

class Obligation(object):
    def __init__(self, label, goal, nfacts, kind, abstract=None, hints=None):
        self.label, self.goal, self.nfacts, self.kind = label, goal, nfacts, kind
        self.abstract = abstract or []
        self.hints = hints or []


class Engine(object):
    symbolic = True

    def __init__(self, feas_timeout_ms=3000, prove_timeout_ms=20000, max_paths=20000, eps=None):
        self.feas_timeout_ms = feas_timeout_ms
        self.prove_timeout_ms = prove_timeout_ms
        self.max_paths = max_paths
        self.stub_specs = []  # (target, stub)
        self.stub_hits = {}
        self.inputs = {}
        self.admissions = []
        self.unknown_feasibility = 0
        self._reset([])

    # -- per path ---------------------------------------------------------
    def _reset(self, prefix):
        self.prefix = list(prefix)
        self.decisions = []
        self.facts = []  # z3 formulas: assumptions and branch conditions in order
        self.fact_tags = []
        self.obligations = []
        self.new_work = []
        self.counter = {}
        self.inputs = {}
        self.sqrt_cache = {}
        self.div_cache = {}
        self.notes = []
        self.path_ghosts = []
        self.acos_terms = {}
        self.atan2_terms = []
        self.script_log = []
        self.log = {}
        self.on_call = {}

    def fresh(self, hint="v", sort="real"):
        n = self.counter.get(hint, 0)
        self.counter[hint] = n + 1
        name = "%s!%d" % (hint, n)
        if sort == "real":
            return Sym(z3.Real(name))
        if sort == "bool":
            return z3.Bool(name)
        if sort == "int":
            return z3.Int(name)
        raise ValueError(sort)

    # inputs
    def real(self, name):
        if name in self.inputs:
            return self.inputs[name]
        v = Sym(z3.Real(name))
        self.inputs[name] = v
        return v

    def reals(self, prefix, n):
        return [self.real("%s%d" % (prefix, i)) for i in range(n)]

    def assume(self, f, tag="requires"):
        f = F(f)
        if f is True:
            return
        if f is False:
            raise Infeasible()
        self.facts.append(f)
        self.fact_tags.append(tag)

    def admit(self, f, what, add=True):
        """admission of a tolerance test (DESIGN section 4): logged; added to
        the path facts when cheap (add=True).  Soundness does not depend on the
        fact being added: without it the proof covers a superset of the
        admitted inputs (the idealised exact predicate everywhere)."""
        if add:
            self.assume(f, "admission:" + what)
        else:
            self.facts.append(z3.BoolVal(True))
            self.fact_tags.append("admission:" + what)

    def note(self, s):
        self.notes.append(s)

    # branching
    def _feasible(self, cond):
        st, _, _ = smt.check_sat(self.facts + [cond], self.feas_timeout_ms)
        if st == "unknown":
            self.unknown_feasibility += 1
            return True
        return st == "sat"

    def branch(self, cond):
        simp = z3.simplify(cond)
        if z3.is_true(simp):
            return True
        if z3.is_false(simp):
            return False
        # the condition is recorded as built by the code (not simplified), so that ghost abstraction can match its sub-terms
        i = len(self.decisions)
        if i < len(self.prefix):
            d = self.prefix[i]
        else:
            t = self._feasible(cond)
            f = self._feasible(z3.Not(cond))
            if t and f:
                d = True
                self.new_work.append(self.decisions + [False])
            elif t:
                d = True
            elif f:
                d = False
            else:
                raise Infeasible()
        self.decisions.append(d)
        self.facts.append(cond if d else z3.Not(cond))
        self.fact_tags.append("branch")
        return d

    def choose(self, n, label="choice"):
        """n-way nondeterministic choice (all alternatives explored)"""
        i = len(self.decisions)
        if i < len(self.prefix):
            d = self.prefix[i]
        else:
            d = 0
            for k in range(n - 1, 0, -1):
                self.new_work.append(self.decisions + [k])
        self.decisions.append(d)
        return d

    # arithmetic services for Sym
    def divide(self, a, b):
        if b.c is not None:
            if b.c == 0:
                raise ZeroDivisionError("division by zero")
            if a.c is not None:
                return Sym(a.c / b.c)
            return a * Sym(1 / b.c)
        if self.branch(b.t == 0):
            raise ZeroDivisionError("division by zero (symbolic denominator can be 0)")
        key = (a.t.get_id(), b.t.get_id())
        if key in self.div_cache:
            return self.div_cache[key]
        q = self.fresh("q")
        self.facts.append(q.t * b.t == a.t)
        self.fact_tags.append("def:div")
        self.div_cache[key] = q
        return q

    def sqrt(self, x, complex_on_negative):
        if x.c is not None:
            if x.c < 0:
                if complex_on_negative:
                    raise S.SymComplexResult("negative ** 0.5")
                raise ValueError("math domain error")
            n, d = x.c.numerator, x.c.denominator
            rn, rd = math.isqrt(n), math.isqrt(d)
            if rn * rn == n and rd * rd == d:
                return Sym(Fraction(rn, rd))
        if x.c is None and self.branch(x.t < 0):
            if complex_on_negative:
                raise S.SymComplexResult("negative ** 0.5")
            raise ValueError("math domain error")
        key = x.t.get_id()
        if key in self.sqrt_cache:
            return self.sqrt_cache[key]
        s = self.fresh("sqrt")
        self.facts.append(z3.And(s.t >= 0, s.t * s.t == x.t))
        self.fact_tags.append("def:sqrt")
        self.sqrt_cache[key] = s
        return s

    def round_(self, x, k):
        raise EngineLimit("round() of a symbolic real outside the hash world")

    PI = Fraction(math.pi)
    # cos(0.1) bracketed by rationals 1e-12 apart (SMALL_ANGLE = 0.1 is the only angle constant the library compares with)
    COS_BRACKETS = {Fraction(0.1): (Fraction(995004165278, 10 ** 12), Fraction(995004165279, 10 ** 12)),
                    Fraction(math.pi - 0.1): (Fraction(-995004165279, 10 ** 12), Fraction(-995004165278, 10 ** 12))}

    def acos(self, c):
        """angle token for math.acos(c) (assumption A3)"""
        if c.c is not None:
            if c.c < -1 or c.c > 1:
                raise ValueError("math domain error")
            if c.c == 1:
                return Sym(0)
            if c.c == 0:
                return Sym(self.PI / 2)
            if c.c == -1:
                return Sym(self.PI)
        else:
            if self.branch(z3.Or(c.t < -1, c.t > 1)):
                self.note("math.acos argument can leave [-1, 1]")
                raise ValueError("math domain error")
        key = ("acos", c.t.get_id())
        if key in self.sqrt_cache:
            return self.sqrt_cache[key]
        th = self.fresh("acos")
        pi = _rv(self.PI)
        t, ct = th.t, c.t
        fs = [t >= 0, t <= pi, (t == 0) == (ct == 1), (t == pi) == (ct == -1), (t < pi / 2) == (ct > 0), (t == pi / 2) == (ct == 0)]
        for k, (lo, hi) in self.COS_BRACKETS.items():
            fs.append(z3.Implies(ct >= _rv(hi), t < _rv(k)))
            fs.append(z3.Implies(ct <= _rv(lo), t >= _rv(k)))
        for (kind, _), (oth, oc) in list(self.acos_terms.items()):
            fs.append((ct < oc) == (t > oth))
            fs.append((ct == oc) == (t == oth))
        self.acos_terms[("acos", c.t.get_id())] = (t, ct)
        self.facts.append(z3.And(*fs))
        self.fact_tags.append("def:acos")
        self.sqrt_cache[key] = th
        return th

    def atan2(self, z, y):
        """angle token for math.atan2(z, y) (assumption A3): a real t in (-pi, pi] whose sign follows z, with the exact values on the
        axes, and ordered against earlier tokens of the same open half-plane by the sign of the cross product"""
        t = self.fresh("atan2")
        pi = _rv(self.PI)
        tt, zz, yy = t.t, z.t, y.t
        fs = [tt > -pi, tt <= pi, z3.Implies(zz > 0, z3.And(tt > 0, tt < pi)), z3.Implies(zz < 0, z3.And(tt < 0, tt > -pi)),
              z3.Implies(z3.And(zz == 0, yy >= 0), tt == 0), z3.Implies(z3.And(zz == 0, yy < 0), tt == pi),
              z3.Implies(z3.And(zz > 0, yy == 0), tt == pi / 2), z3.Implies(z3.And(zz < 0, yy == 0), tt == -pi / 2)]
        for (ot, oz, oy) in self.atan2_terms:
            cr = oy * zz - oz * yy  # cross(other, this) > 0  <=>  this is counter-clockwise of other
            same_half = z3.Or(z3.And(zz > 0, oz > 0), z3.And(zz < 0, oz < 0))
            fs.append(z3.Implies(same_half, z3.And((cr > 0) == (ot < tt), (cr == 0) == (ot == tt))))
            # a ray on the positive / negative y... (z = 0) against an open half-plane is fixed by the ranges above
        self.atan2_terms.append((tt, zz, yy))
        self.facts.append(z3.And(*fs))
        self.fact_tags.append("def:atan2")
        return t

    # proof scaffolding ---------------------------------------------------
    def hint(self, label, f):
        """a universally valid identity: proved on its own (no hypotheses),
        then available as a fact; adding it can never make an unsound proof pass"""
        f = F(f)
        if isinstance(f, bool):
            return
        key = f.get_id()
        st = _HINT_CACHE.get(key)
        if st is None:
            v = smt.prove(f, [], self.prove_timeout_ms, use_cone=False)
            st = v["status"]
            _HINT_CACHE[key] = st
            _HINT_KEEP.append(f)
        if st == "proved":
            self.facts.append(f)
            self.fact_tags.append("hint:" + label)
        else:
            self.note("hint %s not established (%s)" % (label, st))

    def ghost(self, *terms):
        """sub-terms to be replaced by fresh variables when proving the
        obligations of this path (the generalised query is tried first)"""
        for t in terms:
            self.path_ghosts.append(S.term(t))

    def have(self, label, goal, using=(), abstract=(), timeout_ms=None):
        """one step of a proof script (DESIGN 3.5): `goal` is proved from the
        listed formulas only, with the listed sub-terms generalised to fresh
        variables; each formula in `using` must itself be a current fact (it
        is checked to be one syntactically, or proved from the facts).  If the
        step goes through, goal becomes a fact.  A failed step only costs
        proof coverage (later obligations may stay undecided)."""
        goal = F(goal)
        if goal is True:
            return True
        hyps = []
        ids = set(f.get_id() for f in self.facts if not isinstance(f, bool))
        for u in using:
            u = F(u)
            if u is True:
                continue
            if u.get_id() not in ids:
                v = smt.prove(u, self.facts, timeout_ms or self.prove_timeout_ms)
                if v["status"] != "proved":
                    self.note("have[%s]: premise not available" % label)
                    self.script_log.append((label, "premise-missing"))
                    return False
            hyps.append(u)
        g, hs = goal, hyps
        if abstract:
            g, hs = _abstracted(goal, hyps, list(abstract))
        v = smt.prove(g, hs, timeout_ms or self.prove_timeout_ms, use_cone=False)
        self.script_log.append((label, v["status"], round(v["seconds"], 3)))
        if v["status"] == "proved":
            self.facts.append(goal)
            self.fact_tags.append("have:" + label)
            return True
        self.note("have[%s]: %s" % (label, v["status"]))
        return False

    def prune(self):
        """abandon the path if its facts are contradictory"""
        st, _, _ = smt.check_sat(self.facts, self.feas_timeout_ms)
        if st == "unsat":
            raise Infeasible()

    def record(self, key, value):
        self.log.setdefault(key, []).append(value)

    # obligations
    def ensure(self, label, f, kind="ensures", abstract=None, hints=None):
        f = F(f)
        self.obligations.append(Obligation(label, f, len(self.facts), kind, abstract, hints))

    def oblige(self, label, f):
        """an obligation at this program point (callee precondition); it is
        assumed afterwards, as usual"""
        self.ensure(label, f, kind="call-pre")
        self.assume(f, "proved-pre")

    def fail(self, label, msg=""):
        self.ensure(label + (": " + msg if msg else ""), False)

    def undecided(self, label, why):
        """the engine cannot decide this clause on this path (tool limit, never a violation)"""
        self.obligations.append(Obligation(label, None, len(self.facts), "harness-error"))
        self.notes.append("undecided: " + why)
        self.pending_why = why

    # running the real code
    def call(self, fn, *a, **k):
        """run the real code; every library object passed to the call (arguments, receiver, closure of a lambda) must be
        structurally unchanged afterwards unless listed in _mutates=(...) - the frame condition of C20, checked on every path"""
        mutates = k.pop("_mutates", ())

        def run():
            try:
                return Outcome("ret", fn(*a, **k))
            except (Infeasible, PathLimit):
                raise
            except RecursionError:
                raise
            except Exception as e:  # the real code raised
                return Outcome("exc", e)

        return _auto_frame(self, fn, a, k, mutates, run)

    def hit(self, target):
        self.stub_hits[target] = self.stub_hits.get(target, 0) + 1

    # snapshots for frame conditions
    def snapshot(self, obj):
        return snapshot(obj)


def _observable(name):
    """attributes that make up the observable state of a library object: the public ones and Vector's storage `_v`.  Other private
    attributes (lazily filled caches) are not observable by themselves - a stale or wrong cache shows in the answers, which is what
    the repeated-query clauses compare."""
    return not name.startswith("_") or name == "_v"


def snapshot(obj, _memo=None, depth=0):
    """structural snapshot of the observable state of an object graph (attributes, containers, symbolic
    leaves by term identity, object identities for aliasing)"""
    if _memo is None:
        _memo = {}
    if isinstance(obj, Sym):
        return ("num", obj.c if obj.c is not None else ("term", obj.t.get_id()))
    if isinstance(obj, (int, float, Fraction, str, bool, type(None))):
        return ("val", type(obj).__name__, obj)
    if id(obj) in _memo:
        return ("ref", _memo[id(obj)])
    _memo[id(obj)] = len(_memo)
    if isinstance(obj, (list, tuple)):
        return (type(obj).__name__,) + tuple(snapshot(x, _memo, depth + 1) for x in obj)
    if isinstance(obj, (set, frozenset)):
        return ("set", len(obj))
    if isinstance(obj, dict):
        return ("dict",) + tuple((repr(k), snapshot(v, _memo, depth + 1)) for k, v in obj.items())
    if hasattr(obj, "__dict__"):
        return (type(obj).__name__,) + tuple((k, snapshot(v, _memo, depth + 1)) for k, v in sorted(vars(obj).items()) if _observable(k))
    return ("opaque", type(obj).__name__)


def mutable_ids(obj, acc=None):
    """identities of all mutable objects reachable from obj"""
    acc = set() if acc is None else acc
    if isinstance(obj, (Sym, int, float, Fraction, str, bool, type(None))):
        return acc
    if id(obj) in acc:
        return acc
    if isinstance(obj, tuple):
        for x in obj:
            mutable_ids(x, acc)
        return acc
    acc.add(id(obj))
    if isinstance(obj, (list, set, frozenset)):
        for x in obj:
            mutable_ids(x, acc)
    elif isinstance(obj, dict):
        for x in obj.values():
            mutable_ids(x, acc)
    elif hasattr(obj, "__dict__"):
        for x in vars(obj).values():
            mutable_ids(x, acc)
    return acc




def _lib_objects(fn, args, kwargs):
    """library objects reachable as arguments of a call: positional / keyword arguments, the receiver of a bound
    method and the closure cells of a lambda (harnesses write `vc.call(lambda: x in s)`)"""
    out = []

    def add(o, depth=0):
        if o is None or isinstance(o, (Sym, int, float, str, Fraction, bool)):
            return
        if isinstance(o, (list, tuple)) and depth < 2:
            for x in o:
                add(x, depth + 1)
            return
        if type(o).__module__.startswith("Geometry3D.") and not isinstance(o, type) and all(o is not p for p in out):
            out.append(o)

    for a in args:
        add(a)
    for a in (kwargs or {}).values():
        add(a)
    if getattr(fn, "__self__", None) is not None:
        add(fn.__self__)
    for cell in (getattr(fn, "__closure__", None) or ()):
        try:
            add(cell.cell_contents)
        except ValueError:
            pass
    return out


def _auto_frame(vc, fn, a, k, mutates, run):
    objs = [o for o in _lib_objects(fn, a, k) if all(o is not m for m in mutates)]
    before = [snapshot(o) for o in objs]
    out = run()
    same = all(snapshot(o) == b for o, b in zip(objs, before))
    if objs:
        changed = [type(o).__name__ for o, b in zip(objs, before) if snapshot(o) != b]
        vc.ensure("frame: operands of the call are unchanged" + ("" if same else " (changed: %s)" % ", ".join(changed)), same, kind="frame")
    return out

# ---------------------------------------------------------------------------
# exploring a harness
# ---------------------------------------------------------------------------

def _abstracted(goal, facts, abstract):
    """replace the listed sub-terms by fresh variables everywhere"""
    subs = []
    for i, t in enumerate(abstract):
        t = S.term(t) if not isinstance(t, z3.ExprRef) else t
        subs.append((t, z3.Real("ghost!%d" % i)))
    g = z3.substitute(goal, *subs) if not isinstance(goal, bool) else goal
    fs = [z3.substitute(f, *subs) for f in facts]
    return g, fs


def prove_obligation(ob, facts, timeout_ms):
    """-> verdict dict (status/backend/seconds/model/detail)"""
    if ob.goal is True:
        return dict(status="proved", backend="trivial", seconds=0.0, model=None)
    facts = list(facts[: ob.nfacts])
    # hints are universally valid identities: proved first on their own, then used
    hint_fs = []
    for hl, hf in ob.hints:
        hf = F(hf)
        v = smt.prove(hf, [], timeout_ms, use_cone=False)
        if v["status"] != "proved":
            return dict(status="undecided", backend=v["backend"], seconds=v["seconds"], model=None, detail="hint %s not established" % hl)
        hint_fs.append(hf)
    goal = ob.goal if not isinstance(ob.goal, bool) else z3.BoolVal(ob.goal)
    variants = []
    if ob.abstract:
        g, fs = _abstracted(goal, facts + hint_fs, ob.abstract)
        variants.append(("+ghost-abstraction", g, fs))
    variants.append(("", goal, facts + hint_fs))
    # stage 1: every variant with a short budget; stage 2: the full portfolio
    quick = min(2500, timeout_ms)
    last = None
    for stage_timeout, portfolio in ((quick, False), (timeout_ms, True)):
        for suffix, g, fs in variants:
            v = smt.prove(g, fs, stage_timeout, portfolio=portfolio, skip_default=portfolio)
            if v["status"] == "proved":
                v["backend"] += suffix
                return v
            if v["status"] == "refuted" and not suffix:
                return v  # a model of the un-generalised query is a real counter-model
            if not suffix:
                last = v
    return last


class GroupResult(object):
    """JSON-able result of one obligation group (one harness)"""

    def __init__(self, name):
        self.name = name
        self.paths = 0
        self.infeasible = 0
        self.obligations = []  # dicts
        self.stub_hits = {}
        self.admissions = set()
        self.unknown_feasibility = 0
        self.error = None
        self.wall_s = 0.0
        self.vacuity = "ok"
        self.sample_paths = []

    def to_json(self):
        d = dict(self.__dict__)
        d["admissions"] = sorted(self.admissions)
        return d


def run_group(name, harness, stubs=(), patches=True, feas_timeout_ms=3000, prove_timeout_ms=20000, max_paths=20000, expect_stub_hits=(), setup=None, label_filter=None):
    """Explore all paths of harness(vc) and discharge its obligations."""
    t0 = time.time()
    res = GroupResult(name)
    load_repo()
    eng = Engine(feas_timeout_ms, prove_timeout_ms, max_paths)
    rb = Rebinder()
    S.set_engine(eng)
    try:
        if patches:
            install_numeric_patches(rb)
        for target, stub in stubs:
            rb.rebind(target, stub)
        if setup:
            setup(rb)
        work = [[]]
        probes_done = set()
        harness_errors = []
        while work:
            prefix = work.pop()
            if res.paths + res.infeasible >= max_paths:
                res.error = "path limit %d reached" % max_paths
                break
            eng._reset(prefix)
            try:
                harness(eng)
            except Infeasible:
                res.infeasible += 1
                work.extend(eng.new_work)
                continue
            except (PathLimit, KeyboardInterrupt):
                raise
            except (Exception, EngineLimit) as e:
                # the harness itself failed on this path (e.g. the code under verification no longer has the shape the
                # proof script expects): the clauses registered so far are still decided, the rest of the path is undecided
                eng.obligations.append(Obligation("harness completed on this path", None, len(eng.facts), "harness-error"))
                eng.notes.append("harness error: %r" % (e,))
                harness_errors.append("%s\n%s" % (e, traceback.format_exc()[-900:]))
            work.extend(eng.new_work)
            res.paths += 1
            # vacuity guard: the path condition (with all assumptions) is satisfiable
            st, model, _ = smt.check_sat(eng.facts, eng.feas_timeout_ms)
            if st == "unsat":
                res.infeasible += 1
                res.paths -= 1
                continue
            pathdesc = "".join(str(int(d)) for d in eng.decisions)
            for tag in eng.fact_tags:
                if tag.startswith("admission:"):
                    res.admissions.add(tag[len("admission:"):])
            for ob in eng.obligations:
                if ob.kind == "harness-error":
                    why = getattr(eng, "pending_why", None) or ("harness error: " + (harness_errors[-1].splitlines()[0] if harness_errors else ""))
                    res.obligations.append(dict(label=ob.label, kind=ob.kind, path=pathdesc, status="undecided", backend="-", seconds=0.0, detail=why))
                    continue
                if label_filter and not any(k in ob.label for k in label_filter):
                    continue  # this group is registered for a subset of its clauses (e.g. the frame clauses for C20)
                if ob.kind == "must-fail":
                    # vacuity probe: one refutation per label is enough; cheap budget, no generalisation
                    if ob.label in probes_done:
                        continue
                    g0 = ob.goal if not isinstance(ob.goal, bool) else z3.BoolVal(ob.goal)
                    v = smt.prove(g0, list(eng.facts[: ob.nfacts]), 2000, portfolio=False)
                    if v["status"] == "refuted":
                        probes_done.add(ob.label)
                    res.obligations.append(dict(label=ob.label, kind=ob.kind, path=pathdesc, status=v["status"], backend=v["backend"], seconds=round(v["seconds"], 4), detail=""))
                    continue
                if not ob.abstract and eng.path_ghosts:
                    ob.abstract = list(eng.path_ghosts)
                v = prove_obligation(ob, eng.facts, eng.prove_timeout_ms)
                rec = dict(
                    label=ob.label,
                    kind=ob.kind,
                    path=pathdesc,
                    status=v["status"],
                    backend=v["backend"],
                    seconds=round(v["seconds"], 4),
                    detail=v.get("detail", ""),
                )
                if v["status"] == "refuted":
                    rec["model"] = model_inputs(v["model"], eng)
                    rec["notes"] = list(eng.notes)
                res.obligations.append(rec)
            if len(res.sample_paths) < 3:
                res.sample_paths.append(dict(path=pathdesc, facts=len(eng.facts), obligations=[o.label for o in eng.obligations], notes=list(eng.notes)[:6]))
        res.stub_hits = dict(eng.stub_hits)
        res.unknown_feasibility = eng.unknown_feasibility
        for t in expect_stub_hits:
            if not eng.stub_hits.get(t):
                res.error = (res.error or "") + " declared stub %s never hit;" % t
        if res.paths == 0 and not res.error:
            res.error = "no feasible path (vacuous harness)"
    except BaseException as e:  # engine error, never a violation
        res.error = "engine error: %s\n%s" % (e, traceback.format_exc()[-1500:])
    finally:
        rb.restore()
        S.set_engine(None)
    res.wall_s = round(time.time() - t0, 3)
    return res


def model_inputs(model, eng):
    out = {}
    if model is None:
        return out
    for name, s in eng.inputs.items():
        v = smt.model_value(model, s.t)
        out[name] = str(v) if isinstance(v, Fraction) else v
    return out


# ---------------------------------------------------------------------------
# concrete mode: replay of counter-models, bounded stand-in
# ---------------------------------------------------------------------------

class PreconditionFailed(Exception):
    pass


TOL = Fraction(1, 10 ** 9)


class ConcreteVC(object):
    symbolic = False

    def __init__(self, values, as_float=False, rng=None):
        self.values = values
        self.as_float = as_float
        self.rng = rng
        self.failed = []
        self.checked = []
        self.notes = []
        self.on_call = {}
        self.log = {}

    def real(self, name):
        if name not in self.values:
            if self.rng is None:
                raise KeyError("no value for input %s" % name)
            # random concrete search: small lattice rationals (denominators 1, 2, 4), zero fairly often
            r = self.rng.random()
            if name == "eps":
                self.values[name] = Fraction(1, 10 ** 10)
            elif r < 0.15:
                self.values[name] = Fraction(0)
            else:
                self.values[name] = Fraction(self.rng.randint(-16, 16), self.rng.choice((1, 1, 2, 4)))
        v = self.values[name]
        if isinstance(v, str):
            v = Fraction(v)
        if isinstance(v, Fraction):
            if v.denominator == 1:
                v = int(v)
            elif self.as_float or (v.denominator & (v.denominator - 1)) == 0 and abs(v.numerator) < 2 ** 52:
                v = float(v)
        return v

    def reals(self, prefix, n):
        return [self.real("%s%d" % (prefix, i)) for i in range(n)]

    def assume(self, f, tag="requires"):
        if not f:
            raise PreconditionFailed(tag)

    def admit(self, f, what, add=True):
        if not f:
            raise PreconditionFailed("admission:" + what)

    def note(self, s):
        self.notes.append(s)

    def ensure(self, label, f, kind="ensures", abstract=None, hints=None):
        ok = bool(f)
        self.checked.append(label)
        if not ok:
            self.failed.append(label)

    def oblige(self, label, f):
        self.ensure(label, f)

    def fail(self, label, msg=""):
        self.ensure(label + (": " + msg if msg else ""), False)

    def call(self, fn, *a, **k):
        mutates = k.pop("_mutates", ())

        def run():
            try:
                return Outcome("ret", fn(*a, **k))
            except Exception as e:
                return Outcome("exc", e)

        return _auto_frame(self, fn, a, k, mutates, run)

    def hit(self, target):
        pass

    def hint(self, label, f):
        pass

    def ghost(self, *terms):
        pass

    def have(self, label, goal, using=(), abstract=(), timeout_ms=None):
        return True

    def prune(self):
        pass

    def record(self, key, value):
        pass

    def snapshot(self, obj):
        return snapshot(obj)

    def fresh(self, hint="v", sort="real"):
        raise RuntimeError("fresh() in concrete mode")


def run_concrete(harness, values, as_float=False):
    """-> (status, failed_labels, checked_labels, notes); status in ok|fail|pre"""
    load_repo()
    vc = ConcreteVC(values, as_float)
    try:
        harness(vc)
    except PreconditionFailed as e:
        return "pre", [str(e)], vc.checked, vc.notes
    return ("fail" if vc.failed else "ok"), vc.failed, vc.checked, vc.notes


UNIT_VECTORS = [(1, 0, 0), (0, 1, 0), (0, 0, 1), (-1, 0, 0), (0, 0, -1), (Fraction(1, 3), Fraction(2, 3), Fraction(2, 3)), (Fraction(2, 3), Fraction(-2, 3), Fraction(1, 3)),
                (Fraction(2, 7), Fraction(3, 7), Fraction(6, 7)), (Fraction(-6, 7), Fraction(2, 7), Fraction(3, 7)), (Fraction(3, 5), Fraction(4, 5), 0), (0, Fraction(-4, 5), Fraction(3, 5))]


def run_random(harness, trials, seed, want_labels=None):
    """random concrete search on the real, un-stubbed code: -> {label: values} for clauses that fail natively"""
    import random
    load_repo()
    rng = random.Random(seed)
    found = {}
    tried = 0
    for _ in range(trials):
        vc = ConcreteVC({}, rng=rng)
        try:
            harness(vc)
        except PreconditionFailed:
            continue
        except Exception:
            continue
        tried += 1
        for lab in vc.failed:
            if lab not in found and (want_labels is None or any(lab.startswith(w) or w.startswith(lab) for w in want_labels)):
                found[lab] = {k: str(v) for k, v in vc.values.items()}
        if want_labels is not None and all(any(l.startswith(w) or w.startswith(l) for l in found) for w in want_labels):
            break
    return dict(found=found, admitted_trials=tried)
