"""C02 - flat primitive vs convex polygon / polyhedron intersection is exact."""
from g3dvc.runner import Group
from contracts import inter as CI
from props.C01 import set_group, MOD

PROPERTY = "C02"
LEVEL = "other"
MANIFEST = dict(
    text=("Mixed. PROVED for all operands (SET world, opaque operands, so for every polygon size and polyhedron shape): the dispatcher for the 10 type pairs in both orders and the method form; the composition handlers "
          "inter_point_convexpolygon, inter_point_convexpolyhedron, inter_plane_convexpolygon, inter_segment_convexpolygon, inter_convexpolygon_halfline and inter_line_convexpolygon (line not in the polygon's plane) "
          "return exactly f cap K given the contracts of their callees, only documented result types, no 'Bug detected' branch. BOUNDED (labelled, not counted as proved): the handlers that assemble results from hash sets "
          "(coplanar line-polygon, line/plane/segment/half-line vs polyhedron and the aux_calc helpers) are checked on a catalogue of convex lattice bodies in oblique poses with f in generic and every designed degenerate position "
          "against an exact rational oracle (parametric clipping / vertex enumeration)."),
    note=("The proved compositions rest on the contracts of their callees, of which the polyhedron handlers and the coplanar branch are only bounded-checked (assumed contracts, listed in the evidence). "
          "A1 real arithmetic, A4 hash sets deduplicate by ==, A5 admissions. The oracle and the catalogue generators are trusted code (self-tested)."),
    technique="contract-based deductive verification of the composition handlers (ground EUF over membership atoms, z3) + labelled bounded stand-in with exact rational oracle for the hash-set handlers",
    design_ref="DESIGN.md section 9 (C02)",
)
EXPLANATION = ("proved: dispatcher and 6 composition handlers for all operands; bounded stand-in (not counted as proved): hash-set based handlers on a catalogue with an exact oracle")
ASSUMES = ["A1", "A2", "A4", "A5", "A6"]

SET_HANDLERS = [
    ("inter_point_convexpolygon", None, None, ""),
    ("inter_point_convexpolyhedron", None, None, ""),
    ("inter_plane_convexpolygon", None, None, ""),
    ("inter_segment_convexpolygon", None, None, ""),
    ("inter_convexpolygon_halfline", None, None, ""),
    # the line is not contained in the polygon's plane (the coplanar branch iterates over the edges: bounded stand-in)
    ("inter_line_convexpolygon", {"inter_line_plane": ("Line",)}, None, ", line not in the polygon's plane"),
]
BOUNDED_ONLY = [
    MOD + ":inter_line_convexpolygon (coplanar branch)", MOD + ":inter_line_convexpolyhedron", MOD + ":inter_plane_convexpolyhedron",
    MOD + ":inter_segment_convexpolyhedron", MOD + ":inter_convexpolyhedron_halfline",
    "Geometry3D.calc.aux_calc:get_segment_from_point_list", "Geometry3D.calc.aux_calc:get_segment_convexpolyhedron_intersection_point_set",
    "Geometry3D.calc.aux_calc:get_segment_convexpolygon_intersection_point_set", "Geometry3D.calc.aux_calc:get_halfline_convexpolyhedron_intersection_point_set",
]


def set_groups():
    return [set_group(name, restrict=restrict, flags=flags, suffix=suffix) for name, restrict, flags, suffix in SET_HANDLERS]


def groups(tier):
    gs = set_groups()
    for k in ("ConvexPolygon", "ConvexPolyhedron"):
        for f in ("Point", "Line", "HalfLine", "Segment", "Plane"):
            for ta, tb in ((f, k), (k, f)):
                calls = []
                gs.append(Group("dispatch[%s,%s]" % (ta, tb), CI.dispatch_harness(ta, tb, calls), [MOD + ":intersection", "Geometry3D.geometry.body:GeoBody.intersection"],
                                stubs=CI.recording_stubs(calls) + CI.membership_stubs(), world="SET", timeout_s=60, patches=False))
    return gs


def bounded(tier, seed):
    from g3dvc import bounded as B
    nb, per = (6, 40) if tier == "quick" else (40, 120)
    out = []
    for body in ("Polygon", "Polyhedron"):
        for kind in ("Point", "Line", "HalfLine", "Segment", "Plane"):
            out.append(("%s vs %s catalogue" % (kind, body), B.flat_convex, (seed, kind, body, nb, per), 3000))
    return out


def replay_case(case):
    from g3dvc import bounded as B
    return B.replay_intersection(case)


# ---------------------------------------------------------------------------
# aux_calc helpers over symbolic coordinates
# ---------------------------------------------------------------------------

def segment_from_points_harness(n):
    """get_segment_from_point_list on n collinear points p_i = p0 + t_i (p1 - p0) (t_0 = 0, t_1 = 1, the others symbolic): the smallest segment containing all of them"""
    from g3dvc.sym import And, Or, Not, Implies, Iff
    from g3dvc import spec as SP
    from contracts import common as C

    def h(vc):
        import importlib
        g = C.G()
        AUX = importlib.import_module("Geometry3D.calc.aux_calc")
        p0 = C.witness(vc, "p0")
        d = C.witness(vc, "d")
        vc.assume(SP.vnonzero(d), "the first two points differ")
        ts = [0, 1] + [vc.real("t%d" % i) for i in range(2, n)]
        pts = [g.Point(*SP.add(p0, SP.scale(t, d))) for t in ts]
        L = SP.norm2(d)
        if vc.symbolic:
            for i in range(2, n):
                vi = SP.sub(SP.vec(pts[i]), SP.vec(pts[0]))
                v0 = SP.sub(SP.vec(pts[1]), SP.vec(pts[0]))
                vc.hint("v%d.v0 = t%d |v0|^2" % (i, i), SP.dot(vi, v0) == ts[i] * SP.norm2(v0))
                vc.ghost(SP.dot(vi, v0))
            v0 = SP.sub(SP.vec(pts[1]), SP.vec(pts[0]))
            vc.ghost(SP.norm2(v0))
            for k in range(3):
                vc.hint("|v0|^2 >= component^2", SP.norm2(v0) >= v0[k] * v0[k])
        out = vc.call(AUX.get_segment_from_point_list, list(pts))
        vc.ensure("get_segment_from_point_list(%d collinear points) does not raise" % n, out.returned)
        if not out.returned:
            vc.note(repr(out.value))
            return
        s = out.value
        ok = isinstance(s, g.Segment)
        vc.ensure("returns a Segment", ok)
        if not ok:
            return
        a, b = SP.vec(s.start_point), SP.vec(s.end_point)
        vc.ensure("both end points are among the given points", And(Or(*[SP.veq(a, SP.vec(p)) for p in pts]), Or(*[SP.veq(b, SP.vec(p)) for p in pts])))
        # in the parametrisation of the carrier the segment is [min t, max t]
        ta = [vc.real("unused")] if False else None
        for i, (p, t) in enumerate(zip(pts, ts)):
            # p_i lies between the end points: (p_i - a).(b - a) in [0, |b - a|^2] and on the carrier (by construction)
            e = SP.sub(b, a)
            q = SP.dot(SP.sub(SP.vec(p), a), e)
            vc.ensure("given point %d lies on the returned segment" % i, And(SP.gez(q), SP.gez(SP.norm2(e) - q)))

    return h


def h_segment_from_points_rejects(vc):
    """a point off the line of the first two raises"""
    from g3dvc.sym import And, Or, Not
    from g3dvc import spec as SP
    from contracts import common as C
    import importlib
    g = C.G()
    AUX = importlib.import_module("Geometry3D.calc.aux_calc")
    p0, p1, p2 = C.P(vc, "p0"), C.P(vc, "p1"), C.P(vc, "p2")
    vc.assume(Not(SP.collinear(SP.sub(SP.vec(p2), SP.vec(p0)), SP.sub(SP.vec(p1), SP.vec(p0)))), "the third point is off the line through the first two")
    out = vc.call(AUX.get_segment_from_point_list, [p0, p1, p2])
    vc.ensure("non-collinear points raise ValueError", out.raised(ValueError))
    for k in (0, 1):
        out = vc.call(AUX.get_segment_from_point_list, [p0, p1][:k])
        vc.ensure("fewer than two points raise ValueError", out.raised(ValueError))
    out = vc.call(AUX.points_in_a_line, [p0, p1, p2])
    vc.ensure("points_in_a_line is False for them", out.returned and out.value is False)


def h_projection_lengths(vc):
    from g3dvc.sym import And
    from g3dvc import spec as SP
    from contracts import common as C
    import importlib
    AUX = importlib.import_module("Geometry3D.calc.aux_calc")
    u, v = C.V(vc, "u"), C.V(vc, "v")
    uv, vv = SP.vec(u), SP.vec(v)
    vc.assume(SP.vnonzero(vv), "v != 0")
    out = vc.call(AUX.get_projection_length, u, v)
    vc.ensure("get_projection_length does not raise", out.returned)
    if out.returned:
        r = out.value
        vc.ensure("projection length^2 |v|^2 = (u.v)^2, same sign as u.v", And(SP.eq(r * r * SP.norm2(vv), SP.dot(uv, vv) * SP.dot(uv, vv)), SP.gez(r * SP.dot(uv, vv))))
    out = vc.call(AUX.get_relative_projection_length, u, v)
    vc.ensure("get_relative_projection_length does not raise", out.returned)
    if out.returned:
        vc.ensure("relative projection length * |v|^2 = u.v", SP.eq(out.value * SP.norm2(vv), SP.dot(uv, vv)))


_groups_set = groups


def groups(tier):
    from contracts import common as C
    from props.C01 import coord_stubs
    cs = coord_stubs() + [(C.T_LENGTH, C.x_length)]
    AUXM = "Geometry3D.calc.aux_calc:"
    gs = _groups_set(tier)
    for n in (2, 3, 4):
        gs.append(Group("get_segment_from_point_list[%d collinear points]" % n, segment_from_points_harness(n), [AUXM + "get_segment_from_point_list", AUXM + "get_relative_projection_length"],
                        stubs=cs, world="COORD", timeout_s=600, prove_ms=30000))
    gs.append(Group("get_segment_from_point_list / points_in_a_line reject non-collinear and too few points", h_segment_from_points_rejects, [AUXM + "get_segment_from_point_list", AUXM + "points_in_a_line"],
                    stubs=cs, world="COORD", timeout_s=300))
    gs.append(Group("projection lengths", h_projection_lengths, [AUXM + "get_projection_length", AUXM + "get_relative_projection_length"], stubs=[(C.T_LENGTH, C.x_length)], world="COORD", timeout_s=300))
    return gs
