"""Spec functions: the mathematical vocabulary of the contracts.

They are polymorphic: on symbolic reals they build z3 formulas (proof mode), on
int / Fraction / float they return Python booleans (replay and bounded
stand-in; floats are compared with a small tolerance because the real code
takes square roots in floating point).  They never force a bool() on a
symbolic comparison, so they never fork a path.
"""
from fractions import Fraction

from .sym import Sym, SymBool, F, And, Or, Not, Implies, Iff

CTOL = 1e-9  # concrete-mode tolerance for float results


def _sym(x):
    return isinstance(x, Sym)


def eqz(q, scale=1.0):
    if _sym(q):
        return F(q == 0)
    if isinstance(q, (int, Fraction)):
        return q == 0
    return abs(q) <= CTOL * max(1.0, abs(scale))


def eq(a, b):
    if _sym(a) or _sym(b):
        return F(a == b) if _sym(a) else F(b == a)
    if isinstance(a, (int, Fraction)) and isinstance(b, (int, Fraction)):
        return a == b
    return abs(a - b) <= CTOL * max(1.0, abs(a), abs(b))


def gez(q, scale=1.0):
    if _sym(q):
        return F(q >= 0)
    if isinstance(q, (int, Fraction)):
        return q >= 0
    return q >= -CTOL * max(1.0, abs(scale))


def gtz(q, scale=1.0):
    if _sym(q):
        return F(q > 0)
    if isinstance(q, (int, Fraction)):
        return q > 0
    return q > CTOL * max(1.0, abs(scale))


def lez(q, scale=1.0):
    return gez(-q, scale)


def ltz(q, scale=1.0):
    return gtz(-q, scale)


def le(a, b):
    return gez(b - a, max(_mag(a), _mag(b)))


def lt(a, b):
    return gtz(b - a, max(_mag(a), _mag(b)))


def _mag(x):
    if _sym(x):
        return 1.0
    return abs(float(x))


def absv(x):
    return abs(x)


# -- vectors as 3-tuples ------------------------------------------------------

def vec(v):
    """3-tuple of the components of a Vector / Point / sequence"""
    if hasattr(v, "_v"):
        return tuple(v._v)
    if hasattr(v, "x") and hasattr(v, "z"):
        return (v.x, v.y, v.z)
    return tuple(v)


def add(u, v):
    return tuple(a + b for a, b in zip(u, v))


def sub(u, v):
    return tuple(a - b for a, b in zip(u, v))


def scale(k, u):
    return tuple(k * a for a in u)


def neg(u):
    return tuple(-a for a in u)


def dot(u, v):
    return u[0] * v[0] + u[1] * v[1] + u[2] * v[2]


def cross(u, v):
    return (
        u[1] * v[2] - u[2] * v[1],
        u[2] * v[0] - u[0] * v[2],
        u[0] * v[1] - u[1] * v[0],
    )


def norm2(u):
    return dot(u, u)


def det3(u, v, w):
    return dot(u, cross(v, w))


def vmag(u):
    if any(_sym(a) for a in u):
        return 1.0
    return max(1.0, float(norm2(u)) ** 0.5)


def veq(u, v):
    return And(*[eq(a, b) for a, b in zip(u, v)])


def vzero(u):
    return And(*[eqz(a) for a in u])


def vnonzero(u):
    return Not(vzero(u))


def collinear(u, v):
    """u x v = 0"""
    c = cross(u, v)
    s = vmag(u) * vmag(v)
    return And(*[eqz(a, s) for a in c])


# -- denotations (x is a 3-tuple) -----------------------------------------------

def on_line(x, sv, dv):
    return collinear(sub(x, sv), dv)


def on_plane(x, p, n):
    return eqz(dot(sub(x, p), n), vmag(sub(x, p)) * vmag(n))


def on_halfline(x, p, v):
    d = sub(x, p)
    return And(collinear(d, v), gez(dot(d, v), vmag(d) * vmag(v)))


def on_segment(x, a, b):
    d = sub(x, a)
    e = sub(b, a)
    t = dot(d, e)
    s = vmag(d) * vmag(e)
    return And(collinear(d, e), gez(t, s), gez(norm2(e) - t, s))


def same_line(sv1, dv1, sv2, dv2):
    return And(collinear(dv1, dv2), on_line(sv2, sv1, dv1))


def same_plane(p1, n1, p2, n2):
    return And(collinear(n1, n2), on_plane(p2, p1, n1))
