"""C19 - tolerance is uniform and follows set_eps / set_sig_figures."""
import builtins
import itertools
import math
from fractions import Fraction

from g3dvc.runner import Group
from g3dvc.sym import Sym, SymBool, F, And, Or, Not, Implies, Iff
from g3dvc import spec as SP
from contracts import common as C
from props import C05, C16

PROPERTY = "C19"
LEVEL = "proof"
ASSUMES = ["A1", "A2", "A3", "A5", "A6"]
CONST = "Geometry3D.utils.constant:"
SETTINGS = [(10.0 ** -k, k) for k in range(5, 13)]
HASH_MODULES = ["Geometry3D.geometry.point", "Geometry3D.utils.vector", "Geometry3D.geometry.line", "Geometry3D.geometry.plane", "Geometry3D.geometry.segment",
                "Geometry3D.geometry.halfline", "Geometry3D.geometry.polygon", "Geometry3D.geometry.polyhedron"]
MANIFEST = dict(
    text=("(1) The configuration invariant get_sig_figures() = round(-log10(get_eps())), eps = 10^-sig, and the defaults, are checked for both setters from every prior configuration over the whole configuration "
          "set the property names (1e-12..1e-5): each setter's post-state is shown to depend on its argument only, so the invariant holds after any call sequence and restoring eps restores behaviour. "
          "(2) Reads clause, deductive: every tolerance predicate (Vector/Point ==, orthogonal, parallel, null, Point in Plane/Segment/HalfLine) is proved against its tolerance contract "
          "'within eps/1000 => equal/True, beyond 4 eps => unequal/False' with eps a symbolic real installed only behind get_eps(), so a stale copy of the tolerance fails the proof; every round() reached from a "
          "__hash__ is shown to take its digit count from the live get_sig_figures() (taint tracking on the straight-line hash code of all eight hashable types)."),
    note=("A3: log10/round are executed natively on the finite configuration set, not modelled. The 'hash equal / contain each other / intersect as coincident' clause for eps/1000-perturbed objects of the composite types is a "
          "labelled bounded stand-in over catalogue objects whose hashed quantities are away from rounding boundaries (not counted as proved)."),
    design_ref="DESIGN.md section 9 (C19), section 4",
)
EXPLANATION = "finite configuration space enumerated completely; tolerance predicates proved with symbolic eps; hash digit counts by taint tracking"


def h_setters(vc):
    """both setters from every prior configuration, default-argument forms included"""
    g = C.G()
    prior_states = [("set_eps", e) for e, _ in SETTINGS] + [("set_sig_figures", k) for _, k in SETTINGS] + [("set_eps", None), ("set_sig_figures", None)]
    calls = list(prior_states)

    def do(call):
        name, arg = call
        fn = getattr(g, name)
        return fn() if arg is None else fn(arg)

    post = {}
    try:
        for call in calls:
            states = set()
            for prior in prior_states:
                do(prior)
                out = vc.call(do, call)
                vc.ensure("%s(%s) does not raise" % call, out.returned)
                states.add((g.get_eps(), g.get_sig_figures()))
            vc.ensure("%s(%s): the resulting configuration depends on the argument only (any history)" % call, len(states) == 1)
            eps, sig = sorted(states)[0]
            post[call] = (eps, sig)
            vc.ensure("%s(%s): get_sig_figures() = round(-log10(get_eps()))" % call, sig == round(-math.log10(eps)) and isinstance(sig, int))
            vc.ensure("%s(%s): eps = 10^-sig" % call, abs(eps - 10.0 ** (-sig)) <= 1e-9 * eps)
            name, arg = call
            if arg is None:
                vc.ensure("%s(): defaults 1e-10 and 10" % name, abs(eps - 1e-10) <= 1e-22 and sig == 10)
            elif name == "set_eps":
                vc.ensure("set_eps(%s): get_eps() returns it" % arg, eps == arg)
            else:
                vc.ensure("set_sig_figures(%s): get_sig_figures() returns it" % arg, sig == arg)
        for (e, k) in SETTINGS:
            vc.ensure("set_eps(%g) and set_sig_figures(%d) agree" % (e, k), abs(post[("set_eps", e)][0] - post[("set_sig_figures", k)][0]) <= 1e-9 * e
                      and post[("set_eps", e)][1] == post[("set_sig_figures", k)][1])
    finally:
        g.set_eps()
    import Geometry3D.utils.constant as K
    vc.ensure("module state restored to the defaults", K.FLOAT_EPS == 1e-10 and K.SIG_FIGURES == 10)


class LiveInt(int):
    """the value returned by the (stubbed) live get_sig_figures(); arithmetic keeps the taint"""

    def __sub__(self, o):
        return LiveInt(int(self) - int(o))

    def __add__(self, o):
        return LiveInt(int(self) + int(o))

    __radd__ = __add__


def h_hash_digits(vc):
    """every round() reached from a __hash__ takes its digits from the live setting"""
    g = C.G()
    import importlib
    log = []

    def make_round(modname):
        def rec_round(x, k=None):
            log.append((modname, type(k) is LiveInt, k))
            return builtins.round(x, k)
        return rec_round

    saved = []
    live = LiveInt(7)
    try:
        for mn in HASH_MODULES:
            m = importlib.import_module(mn)
            saved.append((m, "round", vars(m).get("round", None), "round" in vars(m)))
            setattr(m, "round", make_round(mn))
            if "get_sig_figures" in vars(m):
                saved.append((m, "get_sig_figures", vars(m)["get_sig_figures"], True))
                setattr(m, "get_sig_figures", lambda: live)
        P, V = g.Point, g.Vector
        poly = g.ConvexPolygon((P(0, 0, 0), P(2, 0, 0), P(2, 1, 0), P(0, 1, 0)))
        objs = [("Point", P(1, 2, 3)), ("Vector", V(1, 2, 3)), ("Line", g.Line(P(1, 2, 3), V(2, 1, 2))), ("Plane", g.Plane(P(1, 2, 3), V(2, 1, 2))),
                ("Segment", g.Segment(P(1, 2, 3), P(2, 4, 4))), ("HalfLine", g.HalfLine(P(1, 2, 3), V(2, 1, 2))), ("ConvexPolygon", poly),
                ("ConvexPolyhedron", g.Parallelepiped(P(0, 0, 0), V(1, 0, 0), V(0, 2, 0), V(0, 0, 3)))]
        for name, o in objs:
            fns = [("hash", lambda o=o: hash(o))]
            if name == "ConvexPolygon":
                fns.append(("hash_with_normal", lambda o=o: o.hash_with_normal()))
            for fname, f in fns:
                del log[:]
                out = vc.call(f)
                vc.ensure("%s.%s does not raise" % (name, fname), out.returned)
                vc.ensure("%s.%s rounds something" % (name, fname), len(log) > 0)
                stale = sorted(set(m for m, ok, k in log if not ok))
                vc.ensure("%s.%s: every round() uses digits from the live get_sig_figures()" % (name, fname), not stale)
                if stale:
                    vc.note("%s.%s rounds with a stale digit count in %s" % (name, fname, stale))
    finally:
        for m, n, old, had in reversed(saved):
            if had:
                setattr(m, n, old)
            else:
                delattr(m, n)


def groups(tier):
    gs = [Group("setters/getters[all configurations x all prior configurations]", h_setters,
                [CONST + "set_eps", CONST + "set_sig_figures", CONST + "get_eps", CONST + "get_sig_figures"], world="CONFIG", timeout_s=120, patches=False),
          Group("hash digits are live[all hashable types]", h_hash_digits, [m + ":__hash__" for m in HASH_MODULES], world="CONFIG", timeout_s=120, patches=False)]
    gs += C05.tolerance_groups()
    gs.append(Group("null[tolerance contract]", C16.make_null_harness(), ["Geometry3D.utils.solver:null"], stubs=[(C16.T_GET_EPS, C16.stub_get_eps)],
                    expect_hits=["get_eps"], world="SCALAR", timeout_s=60))
    return gs
