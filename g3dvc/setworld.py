"""SET world (DESIGN 3.3): operands are opaque instances of the real classes
(created with __new__, no coordinates); `x in obj` is the atom mem(x, obj) over
two uninterpreted sorts.  Callee contracts of the form
    forall x. x in r  <=>  x in a  and  x in b
are kept as universal facts and instantiated at every point token known on the
path (the witness, every point a stub created, every end point), which makes
each query ground EUF.  Because the operands are opaque, a proof here holds for
all coordinates, all polygon sizes and all polyhedron shapes.
"""
import z3

from . import sym as S
from .sym import SymBool, F, And, Or, Not, Implies, Iff
from .engine import load_repo

Pt = z3.DeclareSort("Pt")
Obj = z3.DeclareSort("Obj")
mem = z3.Function("mem", Pt, Obj, z3.BoolSort())

KINDS = ("Point", "Line", "Plane", "Segment", "HalfLine", "ConvexPolygon", "ConvexPolyhedron")


class SetWorld(object):
    def __init__(self, vc):
        self.vc = vc
        self.g = load_repo()
        self.points = []  # z3 Pt constants
        self.universals = []  # python functions x -> formula
        self.n = 0
        vc.setworld = self

    # -- tokens --------------------------------------------------------------
    def _name(self, hint):
        self.n += 1
        return "%s#%d" % (hint, self.n)

    def new_point_tok(self, hint="p"):
        t = z3.Const(self._name(hint), Pt)
        self.points.append(t)
        for u in self.universals:
            self.vc.assume(u(t), "universal instance")
        return t

    def point(self, hint="p"):
        g = self.g
        p = g.Point.__new__(g.Point)
        p._tok = self.new_point_tok(hint)
        return p

    def obj(self, kind, hint=None):
        """an opaque valid instance of the real class `kind` (with the cached
        sub-objects its representation invariant talks about)"""
        g = self.g
        hint = hint or kind.lower()
        if kind == "Point":
            return self.point(hint)
        cls = getattr(g, kind)
        o = cls.__new__(cls)
        o._tok = z3.Const(self._name(hint), Obj)
        if kind == "Segment":
            o.line = self.obj("Line", hint + ".line")
            o.start_point = self.point(hint + ".a")
            o.end_point = self.point(hint + ".b")
            self.forall(lambda x: Implies(mem(x, o._tok), mem(x, o.line._tok)))  # invariant: s subset of its carrier
            self.vc.assume(And(mem(o.start_point._tok, o._tok), mem(o.end_point._tok, o._tok)), "invariant: end points on the segment")
        elif kind == "HalfLine":
            o.line = self.obj("Line", hint + ".line")
            o.point = self.point(hint + ".p")
            self.forall(lambda x: Implies(mem(x, o._tok), mem(x, o.line._tok)))
            self.vc.assume(mem(o.point._tok, o._tok), "invariant: origin on the half-line")
        elif kind == "ConvexPolygon":
            o.plane = self.obj("Plane", hint + ".plane")
            self.forall(lambda x: Implies(mem(x, o._tok), mem(x, o.plane._tok)))
        # every geometric object is a non-empty point set
        e = self.new_point_tok(hint + ".some")
        self.vc.assume(mem(e, o._tok), "non-empty")
        return o

    def forall(self, fn):
        self.universals.append(fn)
        for t in self.points:
            self.vc.assume(fn(t), "universal instance")

    # -- membership ----------------------------------------------------------
    def member(self, x, o):
        """formula: point token x belongs to o (None = empty set, Point = singleton)"""
        if o is None:
            return False
        if isinstance(o, self.g.Point):
            return x == o._tok
        return mem(x, o._tok)

    def kind_of(self, o):
        if o is None:
            return None
        for k in KINDS:
            if type(o) is getattr(self.g, k):
                return k
        return type(o).__name__

    def same_set_atom(self, a, b, hint="eq"):
        """Boolean atom 'a and b denote the same set' with its two consequences"""
        e = z3.Bool(self._name(hint))
        self.forall(lambda x: Implies(e, self.member(x, a) == self.member(x, b)))
        d = self.new_point_tok(hint + ".diff")
        self.vc.assume(Implies(Not(e), self.member(d, a) != self.member(d, b)), "unequal sets differ in a point")
        return e

    # -- the extensional postcondition ---------------------------------------
    def snapshot_opaque(self, o):
        """identity-level snapshot of an opaque operand: its attribute names and the identities of their values"""
        if o is None or not hasattr(o, "__dict__"):
            return repr(o)
        return tuple(sorted((k, id(v)) for k, v in vars(o).items()))

    def ensure_intersection(self, out, a, b, allowed, label="result"):
        vc = self.vc
        if out.raised(AttributeError) and ("object has no attribute" in str(out.value)) and any(a in str(out.value) for a in ("'x'", "'y'", "'z'", "'sv'", "'dv'", "'n'", "'p'", "'points'", "'vector'", "'_v'")):
            # the handler looked at coordinates: it is no longer a pure composition of its callees, which this world cannot follow
            vc.undecided("%s: decided in the SET world" % label, "the handler reads coordinates of its (opaque) operands: %s" % out.value)
            return
        vc.ensure("%s: does not raise" % label, out.returned)
        if not out.returned:
            vc.note("raised %r" % (out.value,))
            return
        r = out.value
        k = self.kind_of(r)
        vc.ensure("%s: type %s is one of %s" % (label, k, "/".join(str(t) for t in allowed)), k in allowed)
        if k is not None and k not in KINDS:
            return
        w = self.new_point_tok("witness")
        both = And(self.member(w, a), self.member(w, b))
        if r is None:
            vc.ensure("%s: None only if the operands are disjoint" % label, Not(both))
        else:
            vc.ensure("%s: every point of the result is common to both operands" % label, Implies(self.member(w, r), both))
            vc.ensure("%s: every common point is in the result" % label, Implies(both, self.member(w, r)))


# ---------------------------------------------------------------------------
# contract stubs for the opaque world
# ---------------------------------------------------------------------------

def W():
    return S.engine().setworld


def stub_point_eq(self, other):
    w = W()
    if not isinstance(other, w.g.Point):
        return False
    w.vc.hit("Point.__eq__")
    return SymBool(self._tok == other._tok)


def stub_point_hash(self):
    return 0


def make_contains_stub(kind, orig):
    """Point in X is the atom; composite containment runs the real code"""

    def stub(self, other):
        w = W()
        if isinstance(other, w.g.Point) and hasattr(self, "_tok"):
            w.vc.hit(kind + ".__contains__")
            w.vc.admit(True, "Point in %s: exactly on it or off it by the margin of its tolerance contract" % kind, add=False)
            return SymBool(mem(other._tok, self._tok))
        return orig(self, other)

    return stub


def stub_line_eq(self, other):
    w = W()
    if not isinstance(other, w.g.Line):
        return False
    w.vc.hit("Line.__eq__")
    e = w.same_set_atom(self, other, "line_eq")
    if getattr(w, "lines_differ", False):
        w.vc.assume(Not(e), "precondition of this case: the carrier lines differ")
    return SymBool(e)


def stub_plane_eq(self, other):
    w = W()
    if not isinstance(other, w.g.Plane):
        return False
    w.vc.hit("Plane.__eq__")
    e = w.same_set_atom(self, other, "plane_eq")
    if getattr(w, "planes_differ", False):
        w.vc.assume(Not(e), "precondition of this case: the planes differ")
    return SymBool(e)


def make_handler_stub(name, result_kinds, case_facts=None, restrict=None):
    """contract stub of an intersection handler: forks on the result type the
    handler's contract allows, returns a fresh token of that type constrained
    by the extensional postcondition (plus the per-type case facts proved at
    the leaf)"""

    def stub(a, b):
        w = W()
        vc = w.vc
        vc.hit(name)
        kinds = [k for k in result_kinds if not (restrict and k in restrict)]
        k = kinds[vc.choose(len(kinds), name)]
        if k is None:
            w.forall(lambda x: Not(And(w.member(x, a), w.member(x, b))))
            return None
        r = w.obj(k, name + ".res")
        w.forall(lambda x: w.member(x, r) == And(w.member(x, a), w.member(x, b)))
        if case_facts:
            case_facts(w, a, b, k, r)
        return r

    stub.__name__ = "stub_" + name
    return stub
