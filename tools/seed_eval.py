#!/usr/bin/env python3
"""tools/seed_eval.py <worktree> <A|B> <seed-id> <property> [check ...]
1. confirms the seeded change in the scratch worktree (tests pass with it, demo fails with it and passes without it);
2. stores it under /verif/seeded/<seed-id>/;
3. applies it to /repo, runs the given checks (default: the property's own), records which report a violation, and restores /repo."""
import json, os, shutil, subprocess, sys
wt, X, sid, prop = sys.argv[1:5]
checks = [prop] + [c for c in sys.argv[5:] if c != prop]
ROOT = "/verif"
def run(cmd, cwd=None, env=None, timeout=3600):
    e = dict(os.environ); e.update(env or {})
    p = subprocess.run(cmd, shell=True, cwd=cwd, env=e, capture_output=True, text=True, timeout=timeout)
    return p.returncode, (p.stdout + p.stderr)
diff = os.path.join(wt, "seed_%s.diff" % X); demo = os.path.join(wt, "seed_%s_demo.py" % X); meta = os.path.join(wt, "seed_%s_meta.json" % X)
assert os.path.exists(diff) and os.path.exists(demo), "seed files missing"
rc, out = run("git status --porcelain -- Geometry3D", cwd=wt); assert out.strip() == "", "worktree sources not clean: " + out
res = {"worktree": wt, "seed": X}
rc, out = run("PYTHONPATH=%s /venv/bin/python %s" % (wt, demo), cwd=wt); res["demo_clean_exit"] = rc
rc, out = run("git apply %s" % diff, cwd=wt); assert rc == 0, out
try:
    rc, out = run("PYTHONPATH=%s /venv/bin/python -m pytest -q -p no:cacheprovider unit_tests 2>&1 | tail -1" % wt, cwd=wt); res["tests_with_change"] = out.strip()
    rc, out = run("PYTHONPATH=%s /venv/bin/python %s" % (wt, demo), cwd=wt); res["demo_changed_exit"] = rc; res["demo_changed_output"] = out.strip()[-600:]
finally:
    run("git checkout -- Geometry3D", cwd=wt)
ok = res["demo_clean_exit"] == 0 and res["demo_changed_exit"] == 1 and "87 passed" in res["tests_with_change"]
res["confirmed"] = ok
print(json.dumps(res, indent=1)[:1500])
if not ok:
    sys.exit("seed not confirmed")
d = os.path.join(ROOT, "seeded", sid); os.makedirs(d, exist_ok=True)
shutil.copy(diff, os.path.join(d, "patch.diff")); shutil.copy(demo, os.path.join(d, "demo.py"))
m = json.load(open(meta)) if os.path.exists(meta) else {}
if os.environ.get("SEED_STORE_ONLY"):
    # confirm and store only; tools/seed_regress.py then runs the checks on scratch copies (in parallel, /repo untouched)
    m.update(dict(property=prop, extra_checks=checks[1:], confirmed_by=dict(tests_with_change=res["tests_with_change"], demo_exit_with_change=res["demo_changed_exit"], demo_exit_without_change=res["demo_clean_exit"],
             how="applied in a scratch worktree of /repo, `pytest unit_tests` (87 passed), demo.py run with and without the change")))
    m.setdefault("checks_run", {})
    json.dump(m, open(os.path.join(d, "meta.json"), "w"), indent=1)
    print("STORED", sid)
    sys.exit(0)
# run the checks against /repo with the change applied
rc, out = run("git status --porcelain", cwd="/repo"); assert out.strip() == "", "/repo not clean"
rc, out = run("git apply %s" % os.path.join(d, "patch.diff"), cwd="/repo"); assert rc == 0, out
det = {}
try:
    for c in checks:
        rc, out = run("./check %s --tier quick" % c, cwd=ROOT, env=dict(G3DVC_EVIDENCE_DIR=os.path.join(ROOT, "work", "evidence-of-changed-trees")), timeout=7200)
        viol = [l for l in out.splitlines() if l.startswith("VIOLATION")]
        und = [l for l in out.splitlines() if l.startswith("UNDECIDED") or l.startswith("ENGINE-ERROR")]
        det[c] = dict(exit=rc, violations=len(viol), first=[v[:260] for v in viol[:3]], undecided=len(und), undecided_first=[u[:200] for u in und[:2]], summary=out.strip().splitlines()[-1][:200] if out.strip() else "")
finally:
    run("git checkout -- .", cwd="/repo")
    run("rm -rf %s/replays" % ROOT)
rc, out = run("git status --porcelain", cwd="/repo"); assert out.strip() == "", "/repo not restored!"
m.update(dict(property=prop, confirmed_by=dict(tests_with_change=res["tests_with_change"], demo_exit_with_change=res["demo_changed_exit"], demo_exit_without_change=res["demo_clean_exit"],
              how="applied in a scratch worktree of /repo, `pytest unit_tests` (87 passed), demo.py run with and without the change"),
              checks_run={c: dict(detected=(v["exit"] == 1 and v["violations"] > 0), **v) for c, v in det.items()}))
json.dump(m, open(os.path.join(d, "meta.json"), "w"), indent=1)
print("DETECTION", sid, {c: (v["exit"], v["violations"]) for c, v in det.items()})
for c, v in det.items():
    for f in v["first"]: print("   ", f)
    for f in v["undecided_first"]: print("    ?", f)
