"""C07 - move translates the object in place and keeps it self-consistent.

Contract on every move(v):  requires v is a Vector (else raises NotImplementedError);
ensures EVERY attribute of the receiver (cached carrier line, plane, centre
included) equals that of the object freshly constructed at the translated
position; the returned object is a different object, attribute-wise equal to the
receiver and shares no mutable state with it or with v; v is unchanged.
Because the representation invariant is the precondition of every query
contract and is re-established by move, any sequence of moves leaves every
query answering as on a fresh object (induction over the history).
"""
import copy

from g3dvc.runner import Group
from g3dvc.engine import mutable_ids
from g3dvc.sym import Sym, SymBool, F, And, Or, Not, Implies, Iff
from g3dvc import spec as SP
from contracts import common as C
from contracts.sem import sem_equal

PROPERTY = "C07"
LEVEL = "proof"
MANIFEST = dict(
    text=("Deductive proof of the contract of move() for Point (C18), Line, Plane, Segment and HalfLine over all positions and all vectors: after move(v) EVERY attribute of the receiver, cached carrier line included, "
          "equals that of the object freshly constructed at the translated position; the returned object is a different object, attribute-wise equal, and shares no mutable state with the receiver or with v; v is unchanged; "
          "move(v) then move(-v) restores every attribute; a non-Vector argument raises and leaves the receiver unchanged (all seven types). Since the re-established representation invariant is the precondition of every query contract, "
          "any sequence of moves leaves every query answering as on a fresh object."),
    note=("ConvexPolygon.move is proved for n = 3..7 (thorough ..8) for the receiver's state (vertices, plane, the normal stays on its side, centre; the returned object is what the constructor builds from the receiver's new vertices - the constructor enters by that contract); "
          "ConvexPolyhedron.move is proved in the thorough tier on tetrahedra with symbolic vertices built by the real constructor (96 obligations: faces, vertex / edge / pyramid sets, centre, outward normals of the receiver, the returned body and its ownership; "
          "ConvexPolygon.move enters by its contract, whose clause 'a counter-clockwise triangle comes back from the vertex sort as given' is proved on the real _check_and_sort_points as a callee-contract group); on every change "
          "ConvexPolyhedron.move (rebuilds hash sets and pyramids; centre and pyramid apexes compared with the freshly built body, bodies with non-uniform vertex valence included) and mixed histories of 1-6 moves interleaved with deep copies and queries (==, hash, membership, intersection, measures, volume()) on all seven types, receiver and returned object "
          "against freshly constructed objects, are a labelled bounded stand-in (not counted as proved). A1, A5."),
    technique='contract-based deductive verification of move() attribute-wise against fresh construction (z3) + labelled bounded move histories against freshly constructed objects',
    design_ref="DESIGN.md section 9 (C07)",
)
EXPLANATION = "move contracts proved attribute-wise against the fresh construction; history claims follow by induction from the re-established invariant"
BOUNDED_ONLY = ["Geometry3D.geometry.polyhedron:ConvexPolyhedron.move (quick tier; beyond tetrahedra in the thorough tier)", "Geometry3D.geometry.polygon:ConvexPolygon.move (n > 8, returned object)"]
ASSUMES = ["A1", "A2", "A5", "A6"]


def fresh_like(g, kind, obj0, v):
    """the object freshly constructed at the translated position, from the receiver's defining data before the move"""
    tv = lambda p: g.Point(*SP.add(SP.vec(p), v))
    if kind == "Line":
        return g.Line(g.Point(*SP.add(SP.vec(obj0.sv), v)), g.Vector(*SP.vec(obj0.dv)))
    if kind == "Plane":
        pl = g.Plane.__new__(g.Plane)  # Plane(p + v, n) with the already-unit normal
        pl.p = tv(obj0.p)
        pl.n = g.Vector(*SP.vec(obj0.n))
        return pl
    if kind == "Segment":
        return g.Segment(tv(obj0.start_point), tv(obj0.end_point))
    if kind == "HalfLine":
        return g.HalfLine(tv(obj0.point), g.Vector(*SP.vec(obj0.vector)))
    raise KeyError(kind)


def move_harness(kind):
    def h(vc):
        g = C.G()
        obj = {"Line": C.line, "Plane": C.plane, "Segment": C.segment, "HalfLine": C.halfline}[kind](vc, "o")
        v = C.V(vc, "v")
        vv = SP.vec(v)
        obj0 = copy.deepcopy(obj)
        bv = vc.snapshot(v)
        out = vc.call(obj.move, v, _mutates=(obj,))
        vc.ensure("%s.move(Vector) does not raise" % kind, out.returned)
        if not out.returned:
            vc.note(repr(out.value))
            return
        r = out.value
        fresh_out = vc.call(fresh_like, g, kind, obj0, vv)
        if not fresh_out.returned:
            vc.note("fresh construction raised %r" % (fresh_out.value,))
            vc.fail("fresh construction at the translated position is possible")
            return
        fresh = fresh_out.value
        vc.ensure("receiver: every attribute (cached state included) equals that of the object freshly constructed at the translated position", sem_equal(obj, fresh))
        vc.ensure("returned object has the receiver's type", type(r) is type(obj))
        if type(r) is type(obj):
            vc.ensure("returned object equals the receiver attribute-wise", sem_equal(r, obj))
            vc.ensure("returned object is a different object", r is not obj)
            shared = mutable_ids(r) & mutable_ids(obj)
            vc.ensure("returned object shares no mutable state with the receiver", not shared)
            vc.ensure("returned object shares no mutable state with the vector", not (mutable_ids(r) & mutable_ids(v)))
        vc.ensure("frame: the vector is unchanged", vc.snapshot(v) == bv)
        vc.ensure("receiver shares no mutable state with the vector", not (mutable_ids(obj) & mutable_ids(v)))
        # moving back restores the original attribute-wise
        back = vc.call(obj.move, -v, _mutates=(obj,))
        vc.ensure("move(-v) does not raise", back.returned)
        if back.returned:
            vc.ensure("move(v) then move(-v) restores every attribute", sem_equal(obj, obj0))
        if vc.symbolic:
            vc.ensure("probe: move leaves the receiver where it was", sem_equal(obj, fresh), kind="must-fail")

    return h


def nonvector_harness(vc):
    """every geometry type: move with a non-Vector raises and changes nothing"""
    g = C.G()
    P, V = g.Point, g.Vector
    objs = [("Point", lambda: P(1, 2, 3)), ("Line", lambda: g.Line(P(1, 2, 3), V(2, 1, 2))), ("Plane", lambda: g.Plane(P(1, 2, 3), V(2, 1, 2))),
            ("Segment", lambda: g.Segment(P(1, 2, 3), P(2, 4, 4))), ("HalfLine", lambda: g.HalfLine(P(1, 2, 3), V(2, 1, 2))),
            ("ConvexPolygon", lambda: g.ConvexPolygon((P(0, 0, 0), P(2, 0, 0), P(2, 1, 0), P(0, 1, 0)))),
            ("ConvexPolyhedron", lambda: g.Parallelepiped(P(0, 0, 0), V(1, 0, 0), V(0, 2, 0), V(0, 0, 3)))]
    for name, mk in objs:
        for bad in (3, (1, 2, 3), None, "v", P(1, 1, 1), [1, 2, 3]):
            o = mk()
            before = vc.snapshot(o)
            out = vc.call(o.move, bad)
            vc.ensure("%s.move(%s) raises NotImplementedError / ValueError / TypeError (never returns)" % (name, type(bad).__name__),
                      out.raised(NotImplementedError, ValueError, TypeError))
            vc.ensure("%s.move(%s) leaves the receiver unchanged" % (name, type(bad).__name__), vc.snapshot(o) == before)


def groups(tier):
    from props.C01 import coord_stubs
    cs = coord_stubs()
    gs = []
    for kind, mod in (("Line", "line"), ("Plane", "plane"), ("Segment", "segment"), ("HalfLine", "halfline")):
        gs.append(Group("%s.move[all positions, all vectors]" % kind, move_harness(kind), ["Geometry3D.geometry.%s:%s.move" % (mod, kind), "Geometry3D.geometry.point:Point.move"],
                        stubs=cs + [(C.T_LENGTH, C.x_length), (C.T_NORMALIZED, C.x_normalized)], world="COORD", timeout_s=300))
    gs.append(Group("move(non-Vector)[all seven types]", nonvector_harness, ["Geometry3D.geometry.%s:%s.move" % (m, k) for k, m in
                    (("Point", "point"), ("Line", "line"), ("Plane", "plane"), ("Segment", "segment"), ("HalfLine", "halfline"), ("ConvexPolygon", "polygon"), ("ConvexPolyhedron", "polyhedron"))],
                    world="CONFIG", timeout_s=120, patches=False))
    return gs


# ---------------------------------------------------------------------------
# ConvexPolygon.move: the receiver's state (vertices, plane, centre) per shape; the returned object is built by the
# constructor, which enters by its contract (an opaque polygon built from exactly the receiver's new vertices)
# ---------------------------------------------------------------------------

class _BuiltFrom(object):
    def __init__(self, pts, args):
        self.pts, self.args = pts, args


def polygon_move_harness(n):
    def h(vc):
        import importlib
        g = C.G()
        PG = importlib.import_module("Geometry3D.geometry.polygon")
        pg = C.polygon(vc, "K", n, convex=True)
        v = C.V(vc, "v")
        vv = SP.vec(v)
        old_pts = [SP.vec(p) for p in pg.points]
        old_n = SP.vec(pg.plane.n)
        d1, d2 = SP.sub(old_pts[1], old_pts[0]), SP.sub(old_pts[2], old_pts[0])
        bv = vc.snapshot(v)
        built = []
        real_cls = PG.ConvexPolygon

        def ctor_stub(pts, *a, **k):  # contract stub of ConvexPolygon(...) as called inside move
            b = _BuiltFrom(tuple(pts), (a, k))
            built.append(b)
            return b

        PG.ConvexPolygon = ctor_stub
        try:
            out = vc.call(real_cls.move, pg, v, _mutates=(pg,))
        finally:
            PG.ConvexPolygon = real_cls
        vc.ensure("ConvexPolygon.move(Vector) does not raise", out.returned)
        if not out.returned:
            vc.note(repr(out.value))
            return
        new_pts = [SP.vec(p) for p in pg.points]
        vc.ensure("receiver: every vertex is translated by v (same cyclic order)", And(len(new_pts) == n, *[SP.veq(a, SP.add(b, vv)) for a, b in zip(new_pts, old_pts)]) if len(new_pts) == n else False)
        fresh = vc.call(g.Plane, g.Point(*SP.add(old_pts[0], vv)), g.Point(*SP.add(old_pts[1], vv)), g.Point(*SP.add(old_pts[2], vv)))
        if fresh.returned:
            vc.ensure("receiver: plane equals the plane freshly constructed from the translated vertices", sem_equal(pg.plane, fresh.value))
        else:
            vc.fail("fresh plane construction raised %r" % (fresh.value,))
        # with the plane clause above (same plane, hence parallel unit normals) this pins the normal itself: lemma "unit, parallel, positive inner product => equal" below
        vc.ensure("receiver: the normal keeps its side (the translated cycle is still counter-clockwise about it)", SP.gtz(SP.dot(SP.vec(pg.plane.n), old_n)))
        cx = [sum(p[k] for p in old_pts) / n + vv[k] for k in range(3)]
        vc.ensure("receiver: centre equals the mean of the translated vertices", SP.veq(SP.vec(pg.center_point), cx))
        vc.ensure("returned object is built by the constructor from exactly the receiver's new vertices",
                  len(built) == 1 and out.value is built[0] and len(built[0].pts) == n and all(p is q for p, q in zip(built[0].pts, pg.points)) and built[0].args == ((), {}))
        vc.ensure("frame: the vector is unchanged", vc.snapshot(v) == bv)
        vc.ensure("receiver shares no mutable state with the vector", not (mutable_ids(pg) & mutable_ids(v)))

    return h



def h_unit_parallel_lemma(vc):
    """two unit vectors that are parallel and have a positive inner product are equal (what turns 'same plane, same side' into 'same normal')"""
    u, w = C.witness(vc, "u"), C.witness(vc, "w")
    vc.assume(And(SP.eq(SP.norm2(u), 1), SP.eq(SP.norm2(w), 1)), "unit vectors")
    vc.assume(And(*[SP.eqz(c_) for c_ in SP.cross(u, w)]), "parallel")
    vc.assume(SP.gtz(SP.dot(u, w)), "positive inner product")
    if vc.symbolic:
        d = SP.dot(u, w)
        vc.hint("Lagrange", d * d + SP.norm2(SP.cross(u, w)) == SP.norm2(u) * SP.norm2(w))
        vc.hint("|u - w|^2", SP.norm2(SP.sub(u, w)) == SP.norm2(u) + SP.norm2(w) - 2 * d)
        vc.have("u.w = 1", d == 1, using=[d * d + SP.norm2(SP.cross(u, w)) == SP.norm2(u) * SP.norm2(w), SP.eq(SP.norm2(u), 1), SP.eq(SP.norm2(w), 1), And(*[SP.eqz(c_) for c_ in SP.cross(u, w)]), SP.gtz(d)])
    vc.ensure("lemma: unit, parallel, positive inner product => equal", SP.veq(u, w))


def _more_groups(tier):
    from props.C01 import coord_stubs
    cs = coord_stubs() + [(C.T_LENGTH, C.x_length), (C.T_NORMALIZED, C.x_normalized)]
    gs = []
    gs.append(Group("lemma: unit parallel vectors on the same side are equal", h_unit_parallel_lemma, ["spec:unit normals"], world="COORD", timeout_s=300))
    for n in ((3, 4, 5, 6, 7) if tier == "quick" else (3, 4, 5, 6, 7, 8)):
        gs.append(Group("ConvexPolygon.move[n=%d, receiver state]" % n, polygon_move_harness(n), ["Geometry3D.geometry.polygon:ConvexPolygon.move", "Geometry3D.geometry.polygon:ConvexPolygon._get_center_point"],
                        stubs=cs, world="COORD", timeout_s=600, prove_ms=30000))
    return gs


# ---------------------------------------------------------------------------
# ConvexPolyhedron.move on a tetrahedron with symbolic vertices (faces given in arbitrary orientation, the body built by the real constructor):
# the real move body runs - face loop, rebuilt point / segment / pyramid sets, centre, flip test, _check_normal, _euler_check, the final
# constructor call - with ConvexPolygon.move entering by its contract (proved above for n = 3: receiver translated in the same cyclic order,
# same unit normal, centre; the returned polygon is built by the constructor from exactly those vertices; that the constructor hands a
# counter-clockwise triangle back as given is the callee-contract group below, proved on the real _check_and_sort_points)
# ---------------------------------------------------------------------------

def x_polygon_move(self, v):
    """contract of ConvexPolygon.move(Vector) as ConvexPolyhedron.move uses it"""
    from g3dvc import sym as S
    g = C.G()
    vc = S.engine()
    vc.hit("ConvexPolygon.move")
    if not isinstance(v, g.Vector):
        raise NotImplementedError("The second parameter for move function must be Vector")
    vv = SP.vec(v)
    new = [SP.add(SP.vec(p), vv) for p in self.points]
    nn = SP.vec(self.plane.n)
    cc = SP.add(SP.vec(self.center_point), vv)

    def mk(target):
        target.points = tuple(g.Point(*q) for q in new)
        pl = g.Plane.__new__(g.Plane)
        pl.p = g.Point(*new[0])
        pl.n = g.Vector(*nn)
        target.plane = pl
        target.center_point = g.Point(*cc)
        return target

    mk(self)
    return mk(g.ConvexPolygon.__new__(g.ConvexPolygon))


def tetrahedron_move_harness(bits):
    def h(vc):
        from props import C09
        g = C.G()
        b, e1, e2, e3 = C.witness(vc, "b"), C.witness(vc, "e1"), C.witness(vc, "e2"), C.witness(vc, "e3")
        det = SP.det3(e1, e2, e3)
        vc.assume(Not(SP.eqz(det)), "the body is not flat (edge vectors independent)")
        verts = [b, SP.add(b, e1), SP.add(b, e2), SP.add(b, e3)]
        cycles = [list(c)[::-1] if bits[i] else list(c) for i, c in enumerate(C09.BODIES["tetrahedron"]["faces"])]
        if vc.symbolic:
            faces = [C09._face(vc, g, [verts[i] for i in cyc], "f%d" % fi) for fi, cyc in enumerate(cycles)]
        else:
            faces = [g.ConvexPolygon(tuple(g.Point(*verts[i]) for i in cyc)) for cyc in cycles]
        c = [sum(v_[k_] for v_ in verts) / 4 for k_ in range(3)]
        if vc.symbolic:
            for f in faces:
                q = SP.dot(SP.sub(SP.vec(f.plane.p), c), SP.vec(f.plane.n))
                vc.admit(Or(q >= C.ADM * C.EPS0, q <= -C.ADM * C.EPS0), "centre off every face plane by >= 4 eps")
        ph = g.ConvexPolyhedron(tuple(faces))  # (contract proved in props/C09; a failure here leaves the path undecided)
        v = C.V(vc, "v")
        vv = SP.vec(v)
        bv = vc.snapshot(v)
        old_faces = [([SP.vec(p) for p in f.points], SP.vec(f.plane.n)) for f in ph.convex_polygons]
        out = vc.call(ph.move, v, _mutates=(ph,))
        vc.ensure("ConvexPolyhedron.move(Vector) does not raise", out.returned)
        if not out.returned:
            vc.note(repr(out.value))
            return
        tv = [SP.add(x, vv) for x in verts]
        tc = SP.add(c, vv)
        fs = list(ph.convex_polygons)
        def same_cycle(pts, ref):
            """pts is ref up to the start of the cycle (the constructor may start the cycle anywhere: float noise decides natively)"""
            m = len(ref)
            if len(pts) != m:
                return False
            return Or(*[And(*[SP.veq(SP.vec(pts[i]), ref[(i + r_) % m]) for i in range(m)]) for r_ in range(m)])

        ok_shape = len(fs) == 4 and all(len(f.points) == len(o[0]) for f, o in zip(fs, old_faces))
        vc.ensure("receiver: four faces, each with the vertices of the old face translated by v in the same cyclic order", ok_shape and And(*[same_cycle(f.points, [SP.add(q, vv) for q in o[0]]) for f, o in zip(fs, old_faces)]))
        vc.ensure("receiver: every face keeps its outward unit normal", ok_shape and And(*[SP.veq(SP.vec(f.plane.n), o[1]) for f, o in zip(fs, old_faces)]))
        vc.ensure("receiver: every face plane passes through a translated vertex of that face", ok_shape and And(*[Or(*[SP.veq(SP.vec(f.plane.p), SP.add(q, vv)) for q in o[0]]) for f, o in zip(fs, old_faces)]))
        vc.ensure("receiver: the vertex set is the four translated vertices, the edge set has six segments", len(ph.point_set) == 4 and len(ph.segment_set) == 6 and
                  And(*[Or(*[SP.veq(SP.vec(p), t) for p in ph.point_set]) for t in tv]))
        vc.ensure("receiver: every edge joins two translated vertices", And(*[And(Or(*[SP.veq(SP.vec(s_.start_point), t) for t in tv]), Or(*[SP.veq(SP.vec(s_.end_point), t) for t in tv])) for s_ in ph.segment_set]))
        vc.ensure("receiver: centre equals the mean of the translated vertices", SP.veq(SP.vec(ph.center_point), tc))
        vc.ensure("receiver: every face normal still points away from the interior", And(*[SP.gtz(SP.dot(SP.sub(SP.vec(f.plane.p), tc), SP.vec(f.plane.n))) for f in fs]))
        pys = list(ph.pyramid_set)
        vc.ensure("receiver: one pyramid per translated face, apex at the translated centre (nothing of the old position is kept)", len(pys) == 4 and
                  And(*[And(SP.veq(SP.vec(py.point), tc), Or(*[And(len(py.convex_polygon.points) == len(f.points), *[SP.veq(SP.vec(a), SP.vec(b_)) for a, b_ in zip(py.convex_polygon.points, f.points)]) for f in fs]))
                        for py in pys]))
        r = out.value
        ok_r = isinstance(r, g.ConvexPolyhedron) and r is not ph
        vc.ensure("returned object is a different ConvexPolyhedron", ok_r)
        if ok_r:
            vc.ensure("returned object: same centre, same four vertices, six edges, four faces", len(r.point_set) == 4 and len(r.segment_set) == 6 and len(r.convex_polygons) == 4 and
                      And(SP.veq(SP.vec(r.center_point), tc), *[Or(*[SP.veq(SP.vec(p), t) for p in r.point_set]) for t in tv]))
            vc.ensure("returned object: every face is a translated face of the receiver with the same outward normal",
                      And(*[Or(*[And(SP.veq(SP.vec(rf.plane.n), SP.vec(f.plane.n)), *[Or(*[SP.veq(SP.vec(a), SP.vec(b_)) for b_ in f.points]) for a in rf.points]) for f in fs if len(f.points) == len(rf.points)] or [False]) for rf in r.convex_polygons]))
            vc.ensure("returned object shares no mutable state with the receiver (moving one later does not move the other)", not (mutable_ids(r) & mutable_ids(ph)))
        vc.ensure("frame: the vector is unchanged", vc.snapshot(v) == bv)
        vc.ensure("receiver shares no mutable state with the vector", not (mutable_ids(ph) & mutable_ids(v)))

    return h


def _polyhedron_groups(tier):
    from props.C01 import coord_stubs
    from props import C09
    names = []
    gs = []
    tcs = coord_stubs() + [(C.T_LENGTH, C.x_length), (C.T_NORMALIZED, C.x_normalized), ("Geometry3D.geometry.polygon:ConvexPolygon.__neg__", C09.x_polygon_neg),
                           ("Geometry3D.geometry.polygon:ConvexPolygon.move", x_polygon_move)]
    # thorough tier only: one group takes 8 - 10 min (the real constructor runs twice on symbolic state); the quick tier keeps polyhedron moves in the bounded histories
    if tier == "quick":
        return []
    for bits in [(0, 0, 0, 0), (1, 0, 0, 1), (1, 1, 1, 1)]:
        nm = "ConvexPolyhedron.move[tetrahedron, face orientations %s, all positions, all vectors]" % "".join(map(str, bits))
        names.append(nm)
        gs.append(Group(nm, tetrahedron_move_harness(bits), ["Geometry3D.geometry.polyhedron:ConvexPolyhedron.move", "Geometry3D.geometry.polyhedron:ConvexPolyhedron._get_center_point",
                        "Geometry3D.geometry.polyhedron:ConvexPolyhedron._check_normal", "Geometry3D.geometry.polyhedron:ConvexPolyhedron._euler_check", "Geometry3D.geometry.polyhedron:ConvexPolyhedron.__init__",
                        "Geometry3D.geometry.pyramid:Pyramid.__init__"], stubs=tcs, world="COORD", timeout_s=1800, prove_ms=30000, expect_hits=["ConvexPolygon.move"]))
    callee = Group("ConvexPolygon._check_and_sort_points[n=3] callee-contract clause assumed by the ConvexPolygon.move stub: a counter-clockwise triangle comes back as given",
                   C09.sort_harness(3, (0, 1, 2), pin_first=True), ["Geometry3D.geometry.polygon:ConvexPolygon._check_and_sort_points"], stubs=C09.make_sort_stubs(), world="FRAME", timeout_s=600, prove_ms=20000,
                   expect_hits=["Vector.__mul__[frame coordinate]"], callee_for=names)
    return [callee] + gs


_groups_flat = groups


def groups(tier):
    return _groups_flat(tier) + _more_groups(tier) + _polyhedron_groups(tier)


# ---------------------------------------------------------------------------
# bounded stand-in: histories of 1-6 moves on all seven types, receiver and return value against fresh objects
# ---------------------------------------------------------------------------

def bounded_histories(seed, n_obj, n_hist):
    import copy as _copy
    import math
    from fractions import Fraction as Fr
    from g3dvc import oracle as O
    from g3dvc import catalogue as K
    from g3dvc.engine import load_repo
    g = load_repo()
    rng = K.make_rng(seed + 7)
    ev = 0
    classes = set()
    failures = []
    samples = []

    def fail(klass, what, case):
        if len(failures) < 6 and klass not in [f["class"] for f in failures]:
            failures.append({"class": klass, "what": what, "case": case})

    def close(x, y):
        return abs(x - y) <= 1e-9 * max(1.0, abs(y))

    def probes(exact_obj):
        """sample points: feature points of the object plus an offset point"""
        pts = list(O.features(exact_obj)[0])[:6]
        c = O.centroid(pts) if pts else (0, 0, 0)
        return pts + [c, O.add(c, (Fr(1, 2), Fr(1, 3).limit_denominator(4), Fr(-1, 4)))]

    objs = []
    for kind in ("Point", "Line", "HalfLine", "Segment", "Plane"):
        for o in K.flat_objects(kind, rng, n_obj):
            R, t, k = K.random_pose(rng)
            objs.append(K.transform(o, R, t, k))
            objs.append(o)  # the same object in its integer lattice position: the library then stores ints, and the moves below add halves to them
    objs += list(K.polygons(rng, n_obj)) + list(K.polyhedra(rng, n_obj))
    # bodies whose vertices do not all lie on the same number of faces (square pyramids, ...): there the mean of the face centres, the mean of the
    # vertices counted per face and the vertex mean differ, so a centre recomputed the wrong way after a move shows (the first bodies of the catalogue
    # are tetrahedra and boxes, where all these means coincide)
    from collections import Counter as _Counter
    objs += [b_ for b_ in K.polyhedra(K.make_rng(seed + 19), 10) if len(set(_Counter(v_ for f_ in b_[1] for v_ in f_).values())) > 1][:2]
    vecs = [(0, 0, 0), (1, 0, 0), (0, -2, 0), (0, 0, 3)]
    for ex in objs:
        for hnum in range(n_hist):
            kind = ex[0]
            recv = O.to_lib(ex, "float")
            negated = kind == "Polygon" and hnum % 2 == 1  # every other polygon history starts from -polygon (same set, opposite normal)
            if negated:
                recv = -recv
            total = (Fr(0), Fr(0), Fr(0))
            steps = rng.randint(1, 6)
            hist = []
            for step in range(steps):
                v = rng.choice(vecs) if rng.random() < 0.3 else tuple(Fr(rng.randint(-6, 6), rng.choice((1, 2))) for _ in range(3))
                hist.append([str(c) for c in v])
                if rng.random() < 0.25:
                    recv = _copy.deepcopy(recv)  # histories interleave deep copies
                target = recv if (step == 0 or rng.random() < 0.7) else ret  # later moves sometimes act on the returned object
                total = O.add(total, v)
                try:
                    ret = target.move(g.Vector(*[O.to_number(c, "float") for c in v]))
                    recv = target
                except Exception as e:
                    fail("%s:raise" % kind, "move raised %r" % (e,), dict(obj=str(ex)[:200], history=hist))
                    break
                ev += 1
                klass = "%s:%d moves" % (kind, step + 1)
                classes.add(klass)
                fresh_exact = K.transform(ex, K.IDENTITY, total, 1)
                fresh = O.to_lib(fresh_exact, "float")
                if negated:
                    fresh = -fresh
                case = dict(kind=kind, obj=[str(x)[:300] for x in ex[1:]], history=hist, negated=negated)
                for name, o in (("receiver", recv), ("returned", ret)):
                    try:
                        ok_eq = (o == fresh) and (fresh == o)
                        ok_hash = hash(o) == hash(fresh) if kind != "Point" or True else True
                    except Exception as e:
                        fail(klass, "%s: == / hash raised %r" % (name, e), case)
                        continue
                    if kind == "Polygon" and name == "receiver" and hasattr(o, "eq_with_normal"):
                        try:
                            if not (o.eq_with_normal(fresh) and fresh.eq_with_normal(o)):
                                fail(klass, "receiver: the normal no longer agrees with that of the object freshly constructed at the translated position (eq_with_normal)", case)
                        except Exception as e:
                            fail(klass, "eq_with_normal raised %r" % (e,), case)
                    if not ok_eq:
                        fail(klass, "%s != object freshly constructed at the translated position" % name, case)
                    if kind in ("Polygon", "Polyhedron") and hasattr(o, "center_point") and hasattr(fresh, "center_point"):
                        # "translates obj itself": the centre (public attribute, reference point of the half-space tests and apex of the pyramids) moves with the body
                        try:
                            cf = [float(fresh.center_point[i_]) for i_ in range(3)]
                            if not all(close(float(o.center_point[i_]), cf[i_]) for i_ in range(3)):
                                fail(klass, "%s: center_point %r is not that of the object freshly constructed at the translated position %r" % (name, o.center_point, fresh.center_point), case)
                            for py in (getattr(o, "pyramid_set", None) or ()):
                                if not all(close(float(py.point[i_]), cf[i_]) for i_ in range(3)):
                                    fail(klass, "%s: a pyramid of the moved body has its apex %r away from the centre of the freshly constructed body %r" % (name, py.point, fresh.center_point), case)
                                    break
                        except Exception as e:
                            fail(klass, "%s: reading center_point / pyramids raised %r" % (name, e), case)
                    elif not ok_hash:
                        fail(klass, "%s == fresh object but the hashes differ" % name, case)
                    if kind != "Point":
                        for q in probes(fresh_exact):
                            qp = g.Point(*[O.to_number(c, "float") for c in q])
                            try:
                                if (qp in o) != (qp in fresh):
                                    fail(klass, "%s: membership of %s differs from the fresh object" % (name, [float(c) for c in q]), case)
                                    break
                            except Exception as e:
                                fail(klass, "%s: membership raised %r" % (name, e), case)
                                break
                        from g3dvc import bounded as B_
                        pr = probes(fresh_exact)
                        num = lambda t: [O.to_number(c, "float") for c in t]
                        # probe lines: oblique through a feature point, and through two feature points (inside the plane of a polygon / along an
                        # edge or diagonal of a body: the coplanar / collinear branches read the cached edges)
                        plines = [g.Line(g.Point(*num(pr[0])), g.Vector(1, 2, 2))]
                        for qa, qb in ((pr[0], pr[-2]), (pr[1 % len(pr)], pr[-1]), (pr[0], pr[1 % len(pr)])):
                            if any(x != y for x, y in zip(qa, qb)):
                                plines.append(g.Line(g.Point(*num(qa)), g.Point(*num(qb))))
                        for pi, probe_line in enumerate(plines):
                            try:
                                r1, r2 = g.intersection(o, probe_line), g.intersection(fresh, probe_line)
                                if not B_.same_lib_result(r1, r2):
                                    fail(klass, "%s: intersection with probe line %d is %r, on the fresh object %r" % (name, pi, r1, r2), case)
                                    break
                            except Exception as e:
                                fail(klass, "%s: intersection raised %r" % (name, e), case)
                                break
                    for m in ("length", "area", "volume"):
                        if hasattr(o, m) and kind in ("Segment", "Polygon", "Polyhedron"):
                            try:
                                if not close(getattr(o, m)(), getattr(fresh, m)()):
                                    fail(klass, "%s: %s() = %r, fresh object %r" % (name, m, getattr(o, m)(), getattr(fresh, m)()), case)
                            except Exception as e:
                                fail(klass, "%s: %s() raised %r" % (name, m, e), case)
                    if kind == "Polyhedron":
                        try:
                            if not close(g.volume(o), g.volume(fresh)):
                                fail(klass, "%s: volume(x) = %r, fresh object %r" % (name, g.volume(o), g.volume(fresh)), case)
                        except Exception as e:
                            fail(klass, "%s: volume(x) raised %r" % (name, e), case)
                if len(samples) < 2:
                    samples.append(dict(kind=kind, history=hist))
            # move back restores an equal object
            try:
                back = recv.move(g.Vector(*[O.to_number(-c, "float") for c in total]))
                orig = O.to_lib(ex, "float")
                ev += 1
                classes.add("%s:move back" % kind)
                if not (recv == orig and back == orig):
                    fail("%s:move back" % kind, "moving back by the negated total does not restore an equal object", dict(kind=kind, obj=[str(x)[:300] for x in ex[1:]], history=hist))
            except Exception as e:
                fail("%s:move back" % kind, "move back raised %r" % (e,), dict(kind=kind, history=hist))
    return dict(evaluations=ev, classes=sorted(classes), failures=failures, samples=samples)


def bounded(tier, seed):
    n_obj, n_hist = (3, 3) if tier == "quick" else (10, 10)
    return [("move histories on all seven types against fresh objects", bounded_histories, (seed, n_obj, n_hist), 3000)]


def replay_case(case):
    r = bounded_histories(0, 3, 3)
    return dict(fails=bool(r["failures"]), observed=[f["what"] for f in r["failures"][:3]])
