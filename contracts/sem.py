"""semantic comparison of two object graphs (attribute-wise equality of all
numeric leaves as a formula; structure compared concretely)"""
from fractions import Fraction

from g3dvc.sym import Sym, And
from g3dvc import spec as SP


def sem_equal(a, b, path="", skip=()):
    """formula: a and b have the same structure and equal numeric leaves.
    Returns False (python) on a structural mismatch."""
    if isinstance(a, (Sym, int, float, Fraction)) and not isinstance(a, bool) and isinstance(b, (Sym, int, float, Fraction)) and not isinstance(b, bool):
        return SP.eq(a, b)
    if type(a) is not type(b):
        return False
    if isinstance(a, (str, bool, type(None))):
        return a == b
    if isinstance(a, (list, tuple)):
        if len(a) != len(b):
            return False
        return And(*[sem_equal(x, y, path + "[%d]" % i, skip) for i, (x, y) in enumerate(zip(a, b))])
    if isinstance(a, (set, frozenset)):
        return len(a) == len(b)
    if hasattr(a, "__dict__"):
        ka, kb = sorted(k for k in vars(a) if k not in skip), sorted(k for k in vars(b) if k not in skip)
        if ka != kb:
            return False
        return And(*[sem_equal(getattr(a, k), getattr(b, k), path + "." + k, skip) for k in ka])
    return a == b
