"""C04 - intersection is total, symmetric and typed over all operand type pairs."""
import os
import re

from g3dvc.runner import Group
from g3dvc.engine import repo_root
from contracts import inter as CI
from props.C01 import set_group, MOD, FLAT_SET, FLAT_CROSSING
from props import C02, C03

PROPERTY = "C04"
LEVEL = "proof"
ASSUMES = ["A2", "A5", "A6"]
EXHAUSTIVE = True
KINDS = ["Point", "Line", "Plane", "Segment", "HalfLine", "ConvexPolygon", "ConvexPolyhedron"]
MANIFEST = dict(
    text=("Exhaustive deductive check of the dispatcher over the finite type lattice: for each of the 49 ordered operand type pairs the real intersection() and the method form run on opaque operands with "
          "recording stubs for the 28 handlers; obligations: a handler is reached (no NotImplementedError), it is the handler whose contract is 'a cap b' for these types, the operands arrive in its parameter order, "
          "its result is passed through, None in either position gives None. Symmetry then follows from the handlers' extensional contracts. The result kinds each handler's contract allows are checked against the table parsed "
          "from docs/source/example_operation.rst on every run, and every composition handler is proved (SET world, all operands) to return only those kinds and never to reach a 'Bug detected' branch."),
    note=("A labelled bounded stand-in (catalogue operands for all 49 ordered pairs, both orders and the method form against the exact oracle) cross-checks symmetry and result types on CPython; it is not counted as proved. "
          "The type-pair space is finite and enumerated completely. Result types and 'Bug detected'-freedom of the leaf handlers that build results from hash sets (line/plane/segment/half-line vs polyhedron, coplanar polygon cases, "
          "polyhedron-polyhedron) rest on the bounded stand-ins of C02/C03, not on a proof; they are listed under functions_bounded_only."),
    technique='contract-based deductive verification: type-exhaustive dispatcher proof for all 49 ordered pairs and handler result kinds against the parsed documentation table (ground EUF, z3) + labelled bounded run of all pairs on catalogue operands',
    design_ref="DESIGN.md section 9 (C04), section 3.3",
)
EXPLANATION = "Finite space (49 ordered type pairs + None) enumerated completely; operands are opaque so each pair covers all operand positions."
BOUNDED_ONLY = C02.BOUNDED_ONLY + C03.BOUNDED_ONLY


def parse_doc_table():
    """(obj1, obj2) -> set of documented result kinds, from the reST table"""
    path = os.path.join(repo_root(), "docs", "source", "example_operation.rst")
    rows = {}
    cur = None
    for line in open(path):
        if not line.startswith("|"):
            continue
        cells = [c.strip() for c in line.strip().strip("|").split("|")]
        if len(cells) != 3 or cells[0] == "obj1":
            continue
        if cells[0]:
            cur = (cells[0], cells[1])
            rows[cur] = set()
        if cur is None:
            continue
        for k in cells[2].replace(",", " ").split():
            rows[cur].add(None if k == "None" else k)
    return rows


def h_doc_table(vc):
    rows = parse_doc_table()
    vc.ensure("the documentation table has one row per unordered type pair (28 rows)", len(rows) == 28)
    for name, (pa, pb) in CI.PARAMS.items():
        row = rows.get((pa, pb), rows.get((pb, pa)))
        vc.ensure("documented row exists for %s (%s, %s)" % (name, pa, pb), row is not None)
        if row is not None:
            vc.ensure("result kinds of %s's contract %s are documented for (%s, %s): %s" % (name, CI.RESULT_KINDS[name], pa, pb, sorted(map(str, row))),
                      set(CI.RESULT_KINDS[name]) <= row)
    # every ordered pair has exactly one handler
    for ta in KINDS:
        for tb in KINDS:
            vc.ensure("a handler contract exists for (%s, %s)" % (ta, tb), CI.handler_for(ta, tb)[0] is not None)
    # the handlers named in the contract table are the handlers of the module (none missing, none extra besides the dead *_old one)
    import importlib
    I = importlib.import_module(MOD)
    present = sorted(n for n in vars(I) if n.startswith("inter_") and callable(getattr(I, n)) and not n.endswith("_old"))
    vc.ensure("contract table covers exactly the handlers of the module", present == sorted(CI.PARAMS))


def groups(tier):
    gs = []
    for ta in KINDS:
        for tb in KINDS:
            calls = []
            gs.append(Group("dispatch[%s,%s]" % (ta, tb), CI.dispatch_harness(ta, tb, calls), [MOD + ":intersection", "Geometry3D.geometry.body:GeoBody.intersection"],
                            stubs=CI.recording_stubs(calls) + CI.membership_stubs(), world="SET", timeout_s=60, patches=False))
    gs.append(Group("documented result types", h_doc_table, ["docs/source/example_operation.rst (table)", "contracts.inter:RESULT_KINDS"], world="SET", timeout_s=60, patches=False))
    for name in FLAT_SET:
        gs.append(set_group(name))
    for name in FLAT_CROSSING:
        gs.append(set_group(name, flags=dict(lines_differ=True), suffix=", carriers differ"))
    gs += C02.set_groups() + C03.set_groups()
    return gs


def bounded(tier, seed):
    """all 49 ordered type pairs on catalogue operands: defined, both orders and the method form agree with the exact common point set, documented type"""
    from g3dvc import bounded as B
    per, nb, pb, nc = (24, 4, 24, 150) if tier == "quick" else (100, 12, 60, 600)
    out = [("flat-flat, all 25 ordered pairs", B.flat_flat, (seed, per), 1800)]
    for body in ("Polygon", "Polyhedron"):
        for kind in ("Point", "Line", "HalfLine", "Segment", "Plane"):
            out.append(("%s vs %s (both orders, method form)" % (kind, body), B.flat_convex, (seed, kind, body, nb, pb), 3000))
    for fam in ("pp", "pg_ph", "ph_ph"):
        out.append(("convex pairs %s (both orders, method form)" % fam, B.convex_convex, (seed, fam, nc), 3000))
    return out


def replay_case(case):
    from g3dvc import bounded as B
    return B.replay_intersection(case)
