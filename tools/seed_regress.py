#!/usr/bin/env python3
"""tools/seed_regress.py [--jobs N] [seed-id-substring ...]
Re-applies every stored seeded change (seeded/<id>/patch.diff) to a scratch copy of /repo's HEAD (never to /repo itself), checks that its demo still
fails there (a seed can be neutralised by a later fix: commit), runs the property's own check plus every check recorded as detecting it, and writes
seeded/REGRESSION.md.  The scratch copies live under /tmp only while this runs.  (Evidence files written by these runs describe mutated trees: re-run the
real checks afterwards.)"""
import json, os, subprocess, sys, shutil, tempfile
from concurrent.futures import ThreadPoolExecutor
ROOT = "/verif"
args = sys.argv[1:]
jobs = 1
if args and args[0] == "--jobs":
    jobs = int(args[1]); args = args[2:]
flt = args
def run(cmd, cwd=None, env=None, timeout=7200):
    e = dict(os.environ); e.update(env or {})
    p = subprocess.run(cmd, shell=True, cwd=cwd, env=e, capture_output=True, text=True, timeout=timeout)
    return p.returncode, p.stdout + p.stderr
def one(sid):
    d = os.path.join(ROOT, "seeded", sid)
    meta = json.load(open(os.path.join(d, "meta.json")))
    prop = meta.get("property")
    checks = [prop] + [c for c, v in (meta.get("checks_run") or {}).items() if v.get("detected") and c != prop]
    checks += [c for c in meta.get("extra_checks", []) if c not in checks]
    scr = tempfile.mkdtemp(prefix="seedrepo_")
    try:
        run("git -C /repo archive HEAD | tar -x -C %s" % scr)
        run("git init -q", cwd=scr)
        rc, out = run("git apply %s" % os.path.join(d, "patch.diff"), cwd=scr)
        if rc != 0:
            return (sid, prop, "patch no longer applies to HEAD", {})
        rc, out = run("PYTHONPATH=%s /venv/bin/python %s" % (scr, os.path.join(d, "demo.py")), cwd=scr)
        demo = rc
        det = {}
        for c in checks:
            rc, out = run("./check %s --tier quick" % c, cwd=ROOT, env=dict(G3DVC_REPO=scr, G3DVC_NPROC=str(max(4, 16 // jobs)), G3DVC_EVIDENCE_DIR=os.path.join(ROOT, "work", "evidence-of-changed-trees")))
            det[c] = (rc, len([l for l in out.splitlines() if l.startswith("VIOLATION")]))
        print(sid, "demo", demo, det, flush=True)
        if os.environ.get("SEED_UPDATE_META"):
            cr = meta.setdefault("checks_run", {})
            for c, (rc, n) in det.items():
                cr[c] = dict(detected=(rc == 1 and n > 0), exit=rc, violations=n)
            json.dump(meta, open(os.path.join(d, "meta.json"), "w"), indent=1)
        return (sid, prop, "demo exit %d" % demo, det)
    finally:
        shutil.rmtree(scr, ignore_errors=True)
sids = [s for s in sorted(os.listdir(os.path.join(ROOT, "seeded"))) if os.path.isdir(os.path.join(ROOT, "seeded", s)) and (not flt or any(f in s for f in flt))]
with ThreadPoolExecutor(max_workers=jobs) as ex:
    rows = list(ex.map(one, sids))
run("rm -rf %s/replays" % ROOT)
with open(os.path.join(ROOT, "seeded", "REGRESSION.md" if not flt else "REGRESSION-partial.md"), "w") as fh:
    head = subprocess.run("git -C /repo log --oneline -1", shell=True, capture_output=True, text=True).stdout.strip()
    vh = subprocess.run("git -C /verif log --oneline -1", shell=True, capture_output=True, text=True).stdout.strip()
    fh.write("# Seeded changes re-run against the current HEAD of /repo (scratch copy)\n\n/repo HEAD: %s; /verif HEAD at the start of the run: %s\n\n| seed | property given | demo on HEAD+seed | checks (exit, violations) | detected |\n|---|---|---|---|---|\n" % (head, vh))
    for sid, prop, demo, det in rows:
        ok = any(rc == 1 and n > 0 for rc, n in det.values())
        fh.write("| %s | %s | %s | %s | %s |\n" % (sid, prop, demo, ", ".join("%s %s" % (c, v) for c, v in det.items()), "yes" if ok else ("n/a" if demo != "demo exit 1" else "NO")))
print("missed:", [r[0] for r in rows if r[2] == "demo exit 1" and not any(rc == 1 and n > 0 for rc, n in r[3].values())])
