"""C03 - intersection of two convex polygons / polyhedra is the exact convex set."""
from g3dvc.runner import Group
from contracts import inter as CI
from props.C01 import set_group, MOD

PROPERTY = "C03"
LEVEL = "other"
MANIFEST = dict(
    text=("Mixed, small proved core. PROVED for all operands (SET world): the dispatcher for the 4 type pairs and the method form; inter_convexpolygon_convexPolyhedron (cut the polyhedron by the polygon's plane, then intersect with the polygon) "
          "and the crossing-/parallel-planes branch of inter_convexpolygon_convexpolygon return exactly a cap b given their callees' contracts, with documented result types and no 'Bug detected' branch. "
          "BOUNDED (labelled, not counted as proved): the coplanar polygon-polygon branch and inter_convexpolyhedron_convexpolyhedron (hash-set assembly, Euler check) on a catalogue of overlapping, nested, disjoint, vertex-/edge-/face-sharing "
          "and half-lattice-translated pairs in oblique poses against exact half-space vertex enumeration (dimension, vertex set, faces, area / volume)."),
    note=("The decisive hash-set handlers are out of the solvers' reach (their correctness depends on hash-based deduplication of whole polygons); they are only bounded-checked. A1, A4, A5; oracle and catalogue trusted."),
    technique="contract-based deductive verification of the composition handlers (ground EUF, z3) + labelled bounded stand-in with exact vertex-enumeration oracle",
    design_ref="DESIGN.md section 9 (C03)",
)
EXPLANATION = ("proved: dispatcher and 2 composition handlers for all operands; bounded stand-in (not counted as proved): coplanar polygon-polygon and polyhedron-polyhedron on a catalogue with an exact oracle")
ASSUMES = ["A1", "A2", "A4", "A5", "A6"]

SET_HANDLERS = [
    ("inter_convexpolygon_convexPolyhedron", None, None, ""),
    # the two polygons' planes cross or are parallel-disjoint (the coplanar branch builds a hull from hash sets: bounded stand-in)
    ("inter_convexpolygon_convexpolygon", {"inter_plane_plane": ("Plane",)}, None, ", planes not coincident"),
]
BOUNDED_ONLY = [MOD + ":inter_convexpolygon_convexpolygon (coplanar branch)", MOD + ":inter_convexpolyhedron_convexpolyhedron"]


def set_groups():
    return [set_group(name, restrict=restrict, flags=flags, suffix=suffix) for name, restrict, flags, suffix in SET_HANDLERS]


def groups(tier):
    gs = set_groups()
    ks = ("ConvexPolygon", "ConvexPolyhedron")
    for ta in ks:
        for tb in ks:
            calls = []
            gs.append(Group("dispatch[%s,%s]" % (ta, tb), CI.dispatch_harness(ta, tb, calls), [MOD + ":intersection", "Geometry3D.geometry.body:GeoBody.intersection"],
                            stubs=CI.recording_stubs(calls) + CI.membership_stubs(), world="SET", timeout_s=60, patches=False))
    return gs


def bounded(tier, seed):
    from g3dvc import bounded as B
    n = 150 if tier == "quick" else 2500
    return [("polygon-polygon catalogue", B.convex_convex, (seed, "pp", n), 3000), ("polygon-polyhedron catalogue", B.convex_convex, (seed, "pg_ph", n), 3000),
            ("polyhedron-polyhedron catalogue", B.convex_convex, (seed, "ph_ph", max(60, n // 3)), 3000)]


def replay_case(case):
    from g3dvc import bounded as B
    return B.replay_intersection(case)
